(* modelrun-sched: replays the harness' operations on the extracted Coq model (Sched_model): queue
   snapshots, take_tasks, batches / cuts, gaps, the variable / row list of the MILP, feasibility of the
   real solution, validation of the real dispatch; then evaluates the C15 monitors (inversion predicate
   + K1 / K2 classification) and the row-system monitors of C05 on the implementation's outputs. *)
open Sched_model

let rec pos_of_int i = if i = 1 then XH else if i land 1 = 0 then XO (pos_of_int (i lsr 1)) else XI (pos_of_int (i lsr 1))
let n_of_int i = if i = 0 then N0 else Npos (pos_of_int i)
let rec int_of_pos = function XH -> 1 | XO p -> 2 * int_of_pos p | XI p -> 2 * int_of_pos p + 1
let int_of_n = function N0 -> 0 | Npos p -> int_of_pos p
let z_of_int i = if i = 0 then Z0 else if i > 0 then Zpos (pos_of_int i) else Zneg (pos_of_int (-i))
let int_of_z = function Z0 -> 0 | Zpos p -> int_of_pos p | Zneg p -> - (int_of_pos p)
let rec float_of_pos = function XH -> 1.0 | XO p -> 2.0 *. float_of_pos p | XI p -> 2.0 *. float_of_pos p +. 1.0
let float_of_z = function Z0 -> 0.0 | Zpos p -> float_of_pos p | Zneg p -> -. float_of_pos p
let float_of_n = function N0 -> 0.0 | Npos p -> float_of_pos p
(* decimal printing of arbitrarily large N (priorities are 64-bit) *)
let rec pos_to_digits p : int list = (* little endian base 10 *)
  let double ds carry0 =
    let rec go ds carry = match ds with
      | [] -> if carry = 0 then [] else [carry]
      | d :: t -> let v = 2 * d + carry in (v mod 10) :: go t (v / 10) in
    go ds carry0 in
  match p with
  | XH -> [1]
  | XO q -> double (pos_to_digits q) 0
  | XI q -> double (pos_to_digits q) 1
let string_of_n = function
  | N0 -> "0"
  | Npos p -> String.concat "" (List.rev_map string_of_int (pos_to_digits p))
let split s = List.filter (fun x -> x <> "") (String.split_on_char ' ' s)
let split_on c s = if s = "-" || s = "" then [] else String.split_on_char c s
let ios = int_of_string
let join sep l = if l = [] then "-" else String.concat sep l
let fr = 10000

(* ---- mirror of the configuration built by the ops ---- *)
type mworker = { id : int; res : n list; mutable free : n list; mutable assigned : int list; tl : int option; mutable blk : (int * int) list }

type world = {
  mutable n_res : int;
  mutable workers : mworker list;
  mutable classes : (n * n) list list;          (* index = rq id; variant 0 *)
  mutable vclasses : variant list list;         (* all variants with their min_time *)
  mutable queues : queue list;                  (* index = rq id *)
  mutable tasks : (int * (int * int)) list;     (* task -> (rq, user prio) *)
  mutable nodes : (int * int) list;             (* multi-node classes: rq -> n_nodes *)
  mutable counter : int;                        (* Core::worker_counter *)
  mutable decided : bool;
  mutable inst : inst option;
  mutable batches : batch list;
  mutable milp : entry list;
  mutable vars : var list;
  mutable solution : (var -> z) option;
  mutable optimal : bool;
  mutable solved_ok : bool;
}

(* raw entries (resource, amount in fractions; amount 0 = the `All` policy) -> variant of the model *)
let mk_variant raw tm =
  { v_entries = List.filter (fun (_, a) -> a <> N0) raw; v_min_time = tm;
    v_all = List.filter_map (fun (r, a) -> if a = N0 then Some r else None) raw }
let class_of_variant v = { rc_entries = v.v_entries; rc_min_time = v.v_min_time; rc_all = v.v_all }

let new_world () = { n_res = 1; workers = []; classes = []; vclasses = []; queues = []; tasks = []; nodes = []; counter = 0; decided = false; inst = None;
                     batches = []; milp = []; vars = []; solution = None; optimal = false; solved_ok = false }

let rec set_nth l i x = match l with [] -> [] | h :: t -> if i = 0 then x :: t else h :: set_nth t (i - 1) x

let build_inst w =
  let ws = List.sort (fun a b -> compare a.id b.id) w.workers in
  { i_nres = n_of_int w.n_res; i_now = N0;
    i_workers = List.map (fun m -> { w_id = n_of_int m.id; w_res = m.res; w_free = m.free;
                                     w_assigned = List.map n_of_int m.assigned;
                                     w_blocked = List.filter_map (fun (rq, v) -> if v = 0 then Some (n_of_int rq) else None) m.blk;
                                     w_term = (match m.tl with Some t -> Some (n_of_int t) | None -> None) }) ws;
    i_classes = List.map (fun vs -> match vs with
        | v :: _ -> class_of_variant v
        | [] -> { rc_entries = []; rc_min_time = N0; rc_all = [] }) w.vclasses;
    i_queues = w.queues }

let var_s = function
  | VX (w, rq) -> Printf.sprintf "x %d %d 0" (int_of_n w) (int_of_n rq)
  | VR (w, rq) -> Printf.sprintf "R %d %d 0" (int_of_n w) (int_of_n rq)
  | VB (rq, s) -> Printf.sprintf "B 0 %d %d" (int_of_n rq) (int_of_n s)

let prio_of_user p = from_user_priority (z_of_int p)

let trace_mode = ref ""
let out = Buffer.create 65536
let pr s = Buffer.add_string out s; Buffer.add_char out '\n'

let var_index vars v =
  let rec go i = function [] -> -1 | x :: t -> if x = v then i else go (i + 1) t in
  go 0 vars

let process_trace header lines =
  pr header;
  let w = new_world () in
  let monitors = ref [] and tags = ref [] in
  let tag t = if not (List.mem t !tags) then tags := t :: !tags in
  let impl_feasible = ref None in
  let impl_resp : string list ref = ref [] in
  let cur = ref "" in
  let query_seen = ref false in
  let query_check : (string list -> unit) ref = ref (fun _ -> ()) in
  let handle_op toks line =
    pr line;
    match toks with
    | "ADDW" :: id :: units ->
        let us = List.map ios units in
        (* WorkerResources::from_description: vector length = highest present resource index + 1 *)
        let rec trim l = match List.rev l with 0 :: r -> trim (List.rev r) | _ -> l in
        let v = List.map (fun u -> n_of_int (u * fr)) (trim us) in
        w.workers <- w.workers @ [ { id = ios id; res = v; free = v; assigned = []; tl = None; blk = [] } ]
    | "ADDRQ" :: es :: _ ->
        let entries = List.map (fun e -> match String.split_on_char ':' e with
            | [ r; a ] -> (n_of_int (ios r), n_of_int (ios a)) | _ -> failwith "bad entry") (split_on ',' es) in
        let rec idx i = function [] -> -1 | x :: t -> if x = entries then i else idx (i + 1) t in
        let k = idx 0 w.classes in
        let id = if k >= 0 then k else begin
            w.classes <- w.classes @ [ entries ];
            w.vclasses <- w.vclasses @ [ [ mk_variant entries N0 ] ];
            w.queues <- w.queues @ [ empty_queue ];
            List.length w.classes - 1 end in
        pr (Printf.sprintf "= RQ %d" id)
    | "ADDWT" :: id :: tl :: units ->
        let us = List.map ios units in
        let rec trim l = match List.rev l with 0 :: r -> trim (List.rev r) | _ -> l in
        let v = List.map (fun u -> n_of_int (u * fr)) (trim us) in
        w.workers <- w.workers @ [ { id = ios id; res = v; free = v; assigned = []; tl = (if tl = "-" then None else Some (ios tl)); blk = [] } ]
    | "ADDRQV" :: vs :: _ ->
        let variants = List.map (fun v -> match String.split_on_char '@' v with
            | [ es; tm ] ->
                (List.map (fun e -> match String.split_on_char ':' e with
                      | [ r; a ] -> (n_of_int (ios r), n_of_int (ios a)) | _ -> failwith "bad entry") (split_on ',' es),
                 n_of_int (ios tm))
            | _ -> failwith "bad variant") (String.split_on_char '|' vs) in
        let raw0 = fst (List.hd variants) in
        let variants = List.map (fun (raw, tm) -> mk_variant raw tm) variants in
        let rec idx i = function [] -> -1 | x :: t -> if x = variants then i else idx (i + 1) t in
        let k = idx 0 w.vclasses in
        let id = if k >= 0 then k else begin
            w.vclasses <- w.vclasses @ [ variants ];
            w.classes <- w.classes @ [ raw0 ];
            w.queues <- w.queues @ [ empty_queue ];
            List.length w.vclasses - 1 end in
        pr (Printf.sprintf "= RQ %d" id)
    | "ADDWA" :: _group :: tl :: units ->
        let us = List.map ios units in
        let rec trim l = match List.rev l with 0 :: r -> trim (List.rev r) | _ -> l in
        let v = List.map (fun u -> n_of_int (u * fr)) (trim us) in
        w.counter <- w.counter + 1;
        w.workers <- w.workers @ [ { id = w.counter; res = v; free = v; assigned = []; tl = (if tl = "-" then None else Some (ios tl)); blk = [] } ];
        pr (Printf.sprintf "= W %d" w.counter)
    | "ADDRQMN" :: nn :: tm :: _ ->
        let variants = [ mk_variant [] (n_of_int (ios tm)) ] in
        let rec idx i = function
          | [] -> -1
          | x :: t -> if x = variants && (try List.assoc i w.nodes with Not_found -> 0) = ios nn then i else idx (i + 1) t in
        let k = idx 0 w.vclasses in
        let id = if k >= 0 then k else begin
            w.vclasses <- w.vclasses @ [ variants ];
            w.classes <- w.classes @ [ [] ];
            w.queues <- w.queues @ [ empty_queue ];
            w.nodes <- (List.length w.vclasses - 1, ios nn) :: w.nodes;
            List.length w.vclasses - 1 end in
        pr (Printf.sprintf "= RQ %d" id)
    | "QUERY" :: rest ->
        w.decided <- true;
        query_seen := true;
        let kv = List.map (fun s -> match String.index_opt s '=' with
            | Some k -> (String.sub s 0 k, String.sub s (k + 1) (String.length s - k - 1)) | None -> (s, "")) rest in
        let get k = try List.assoc k kv with Not_found -> "" in
        let qs = List.map (fun q -> match String.split_on_char ':' q with
            | [ p; tl; msn; mpa; _mu; items ] ->
                { wq_partial = (p = "1");
                  wq_desc = List.map (fun e -> match String.split_on_char '/' e with
                      | [ r; u ] -> (n_of_int (ios r), n_of_int (ios u * fr)) | _ -> failwith "bad item") (split_on ',' items);
                  wq_time_limit = (if tl = "-" then None else Some (n_of_int (ios tl)));
                  wq_max_sn = n_of_int (ios msn); wq_max_per_alloc = n_of_int (ios mpa) }
            | _ -> failwith "bad query") (split_on ';' (get "q")) in
        let mus = List.map (fun q -> match String.split_on_char ':' q with
            | [ _; _; _; _; mu; _ ] -> ios mu | _ -> 0) (split_on ';' (get "q")) in
        let free_real = List.length (List.filter (fun m -> m.assigned = []) w.workers) in
        let st = { qs_nres = n_of_int w.n_res; qs_now = N0;
                   qs_classes = List.map (fun vs -> match vs with
                       | v :: _ -> class_of_variant v
                       | [] -> { rc_entries = []; rc_min_time = N0; rc_all = [] }) w.vclasses;
                   qs_nodes = List.mapi (fun i _ -> n_of_int (try List.assoc i w.nodes with Not_found -> 0)) w.vclasses;
                   qs_queues = w.queues; qs_worker_counter = n_of_int w.counter; qs_free_real = n_of_int free_real } in
        let vals = List.filter_map (fun e -> match String.split_on_char ':' e with
            | [ "x"; a; b; _; v ] -> Some (VX (n_of_int (ios a), n_of_int (ios b)), ios v)
            | [ "R"; a; b; _; v ] -> Some (VR (n_of_int (ios a), n_of_int (ios b)), ios v)
            | [ "B"; _; b; c; v ] -> Some (VB (n_of_int (ios b), n_of_int (ios c)), ios v)
            | _ -> None) (split_on ',' (get "x")) in
        let s v = match List.assoc_opt v vals with Some k -> z_of_int k | None -> Z0 in
        pr (Printf.sprintf "= STATE counter=%d free_real=%d" w.counter free_real);
        let show_resp sn mn =
          Printf.sprintf "RESPONSE sn=%s mn=%s" (join "," (List.map string_of_int sn))
            (join "," (List.map (fun (a, b, c) -> Printf.sprintf "%d:%d:%d" a b c) mn)) in
        let model = new_worker_query st qs false true s in
        (match model with
         | Ok QErr -> pr "= INVALID"; tag "query-invalid"
         | Ok (QResp r) ->
             pr ("= " ^ show_resp (List.map int_of_n r.r_sn)
                   (List.map (fun e -> (int_of_n e.mn_type, int_of_n e.mn_per_alloc, int_of_n e.mn_max_allocs)) r.r_mn));
             pr "= MNSORTED 1"
         | Panic site -> pr "= PANIC compute_new_worker_query"; tag (Printf.sprintf "query-panic-%d" (int_of_n site))
         | Disabled -> pr "= DISABLED");
        (* ---- classification ---- *)
        let i = query_inst st qs in
        let n_classes = List.length w.vclasses in
        let rqs = List.init n_classes (fun k -> k) in
        let sn_waiting_rqs = List.filter (fun rq -> not (is_mn st (n_of_int rq)) && int_of_n (waiting_of i (n_of_int rq)) > 0) rqs in
        let mn_rqs = List.filter (fun rq -> is_mn st (n_of_int rq)) rqs in
        tag "query";
        if qs = [] then tag "query-empty-list";
        if qs <> [] && List.for_all (fun q -> q.wq_max_sn = N0) qs then tag "query-zero-max-sn";
        if List.exists (fun q -> q.wq_partial) qs then tag "query-partial";
        if List.exists (fun q -> q.wq_partial && q.wq_desc = []) qs then tag "query-partial-empty-descriptor";
        if List.exists (fun q -> not q.wq_partial) qs then tag "query-full";
        if List.exists (fun mu -> mu > 0) mus then tag "query-min-utilization";
        if List.length qs >= 2 then tag "query-multi";
        if List.exists (fun m -> m.assigned <> []) w.workers then tag "query-real-workers-busy";
        if w.workers = [] then tag "query-no-real-workers";
        let fits q rq = class_fits i q (n_of_int rq) in
        if List.exists (fun rq -> List.exists (fun q -> fits q rq) qs && List.exists (fun q -> not (fits q rq)) qs) sn_waiting_rqs
        then tag "query-class-fits-only-some-query";
        if List.exists (fun rq -> qs <> [] && List.for_all (fun q -> not (fits q rq)) qs) sn_waiting_rqs then tag "query-class-fits-no-query";
        if List.exists (fun rq -> List.exists (fun q -> match q.wq_time_limit with
            | Some t -> int_of_n t < int_of_n (class_min_time st (n_of_int rq)) | None -> false) qs) sn_waiting_rqs
        then tag "query-min-time-above-time-limit";
        if mn_rqs <> [] then tag "query-mn-class";
        if prefix_mn_unwrap st qs then tag "query-pre-F32-mn-batch-alive-with-fake-workers";
        if prefix_highs_rejects st qs then tag "query-pre-F33-max-row-leak-all-policy";
        if List.exists (fun rq -> find_query (class_min_time st (n_of_int rq)) (nodes_of st (n_of_int rq)) qs N0 = None) mn_rqs && qs <> []
        then tag "query-mn-no-admissible-query";
        (* ---- monitors on the IMPLEMENTATION's response ---- *)
        let solved = get "solved" = "1" in
        if solved && not (query_sol_ok st qs s) && (match model with Ok (QResp _) -> true | _ -> false) then
          monitors := "M C17 FAIL solution-infeasible-for-model-rows the real solver's answer is not a feasible point of the rows the model derives for the fake workers" :: !monitors;
        query_check := (fun lines ->
          List.iter (fun body -> match split body with
            | "RESPONSE" :: rest ->
                let kv = List.map (fun s -> match String.index_opt s '=' with
                    | Some k -> (String.sub s 0 k, String.sub s (k + 1) (String.length s - k - 1)) | None -> (s, "")) rest in
                let get k = try List.assoc k kv with Not_found -> "" in
                let sn = List.map ios (split_on ',' (get "sn")) in
                let mn = List.map (fun e -> match List.map ios (String.split_on_char ':' e) with
                    | [ a; b; c ] -> (a, b, c) | _ -> failwith "bad mn") (split_on ',' (get "mn")) in
                if List.length sn <> List.length qs then
                  monitors := Printf.sprintf "M C17 FAIL response-length counts=%d queries=%d" (List.length sn) (List.length qs) :: !monitors
                else begin
                  List.iteri (fun k c ->
                      let q = List.nth qs k in
                      let cands = List.filter (fun rq -> fits q rq) sn_waiting_rqs in
                      let cand_tasks = List.fold_left (fun a rq -> a + int_of_n (waiting_of i (n_of_int rq))) 0 cands in
                      if c > 0 && cands = [] then
                        monitors := Printf.sprintf "M C17 FAIL demand-without-candidates query=%d workers=%d no waiting single-node class fits the query's descriptor / time limit" k c :: !monitors
                      else if c > int_of_n q.wq_max_sn then
                        monitors := Printf.sprintf "M C17 FAIL demand-exceeds-tasks query=%d workers=%d max_sn_workers=%d" k c (int_of_n q.wq_max_sn) :: !monitors
                      else if c > cand_tasks then
                        monitors := Printf.sprintf "M C17 FAIL demand-exceeds-tasks query=%d workers=%d waiting tasks that fit=%d" k c cand_tasks :: !monitors;
                      if c > 0 then tag "query-demand-positive";
                      if c = 0 && cands = [] && int_of_n q.wq_max_sn > 0 && sn_waiting_rqs <> [] then tag "query-no-candidates-no-demand") sn;
                  let total = List.fold_left (+) 0 sn in
                  if total > int_of_n (sn_waiting st) then
                    monitors := Printf.sprintf "M C17 FAIL demand-exceeds-tasks total workers=%d waiting single-node tasks=%d" total (int_of_n (sn_waiting st)) :: !monitors
                end;
                (* multi-node entries: exactly one per multi-node class with an admissible query *)
                let expected = List.concat_map (fun rq ->
                    List.map (fun e -> (int_of_n e.mn_type, int_of_n e.mn_per_alloc, int_of_n e.mn_max_allocs))
                      (mn_entry_of st qs (n_of_int rq) (List.nth w.queues rq))) mn_rqs in
                List.iter (fun ((k, n, a) as e) ->
                    if not (List.mem e expected) then
                      monitors := Printf.sprintf "M C17 FAIL mn-demand-without-candidates worker_type=%d workers_per_allocation=%d max_allocations=%d: no multi-node class with that many nodes and queue size has this query as its first admissible one" k n a :: !monitors)
                  mn;
                List.iter (fun ((k, n, a) as e) ->
                    if not (List.mem e mn) then
                      monitors := Printf.sprintf "M C17 FAIL mn-demand-missing worker_type=%d workers_per_allocation=%d max_allocations=%d" k n a :: !monitors)
                  expected;
                if mn <> [] then tag "query-mn-entry";
                if List.exists (fun (_, _, a) -> a = 0) mn then tag "query-mn-entry-empty-queue";
                if (List.exists (fun c -> c > 0) sn || List.exists (fun (_, _, a) -> a > 0) mn)
                   && (List.mem "query-class-fits-only-some-query" !tags || List.mem "query-class-fits-no-query" !tags
                       || List.mem "query-mn-no-admissible-query" !tags || List.length qs >= 2) then tag "nontrivial"
            | _ -> ()) lines)
    | "BLOCK" :: wk :: rq :: v :: _ ->
        let m = List.find (fun m -> m.id = ios wk) w.workers in
        m.blk <- (ios rq, ios v) :: m.blk
    | "VDECIDE" :: rest ->
        let kv = List.map (fun s -> match String.index_opt s '=' with
            | Some k -> (String.sub s 0 k, String.sub s (k + 1) (String.length s - k - 1)) | None -> (s, "")) rest in
        let get k = try List.assoc k kv with Not_found -> "" in
        let assigned = List.map (fun e -> match String.split_on_char ':' e with
            | [ wk; t; v ] -> (ios wk, ios t, ios v) | _ -> failwith "bad assigned") (split_on ',' (get "assigned")) in
        let ws = List.sort (fun a b -> compare a.id b.id) w.workers in
        List.iter (fun m -> pr (Printf.sprintf "= PRE %d free=%s" m.id
                                  (join "," (List.init w.n_res (fun r -> string_of_n (rv_get m.free (n_of_int r))))))) ws;
        let all_ok = ref true in
        let posts = List.map (fun m ->
            let vw = { vw_id = n_of_int m.id; vw_res = m.res; vw_free = m.free;
                       vw_term = (match m.tl with Some t -> Some (n_of_int t) | None -> None);
                       vw_blocked = List.map (fun (a, b) -> (n_of_int a, n_of_int b)) m.blk } in
            let ps = List.filter_map (fun (wk, t, v) ->
                if wk = m.id then (let rq, _ = List.assoc t w.tasks in Some (t, rq, v)) else None) assigned in
            List.iter (fun (t, rq, v) ->
                List.iter (fun e ->
                    all_ok := false;
                    let cls = match e with VNoVariant -> "no-such-variant" | VBlocked -> "placed-on-blocked-variant"
                                          | VNoTime -> "placed-without-remaining-time" | VNoResources -> "placed-without-free-resources" in
                    monitors := Printf.sprintf "M C05 FAIL %s task=%d rq=%d variant=%d worker=%d" cls t rq v m.id :: !monitors)
                  (vplace_errors N0 w.vclasses vw (n_of_int rq) (n_of_int v))) ps;
            (m, vfree_after w.vclasses vw m.free (List.map (fun (_, rq, v) -> (n_of_int rq, n_of_int v)) ps))) ws in
        pr (if !all_ok then "= PLACEMENTS ok" else "= PLACEMENTS bad");
        List.iter (fun (m, post) -> match post with
            | Some v -> pr (Printf.sprintf "= POST %d free=%s" m.id (join "," (List.init w.n_res (fun r -> string_of_n (rv_get v (n_of_int r))))))
            | None -> pr (Printf.sprintf "= POST %d OVERBOOKED" m.id);
                monitors := Printf.sprintf "M C05 FAIL overbooked worker=%d" m.id :: !monitors) posts;
        tag "variants";
        if assigned <> [] then tag "dispatch";
        if List.exists (fun (_, _, v) -> v > 0) assigned then tag "variants-nonfirst-placed";
        (* how often the interesting window occurs: a worker whose remaining lifetime lies between the
           min_times of two variants of a class, and the quick variant does not fit its free resources *)
        List.iter (fun m -> match m.tl with
            | None -> ()
            | Some tl ->
                List.iter (fun vs ->
                    let times = List.map (fun v -> int_of_n v.v_min_time) vs in
                    if List.exists (fun t -> t <= tl) times && List.exists (fun t -> t > tl) times then begin
                      tag "variants-time-window";
                      let quick_fit = List.exists (fun v -> int_of_n v.v_min_time <= tl && capable_res m.free v.v_entries) vs in
                      let slow_fit = List.exists (fun v -> int_of_n v.v_min_time > tl && capable_res m.free v.v_entries) vs in
                      if (not quick_fit) && slow_fit then tag "variants-window-quick-unfit-slow-fits"
                    end) w.vclasses) w.workers;
        if List.exists (fun m -> m.blk <> []) w.workers then tag "variants-blocked";
        if List.exists (fun vs -> List.exists (fun v -> v.v_all <> []) vs) w.vclasses then begin
          tag "variants-all-policy";
          if List.exists (fun m -> m.assigned <> []) w.workers then tag "variants-all-policy-busy-worker"
        end;
        if get "optimal" = "1" && assigned <> [] then tag "nontrivial"
    | "ADDT" :: t :: rq :: p :: _ ->
        let t = ios t and rq = ios rq and p = ios p in
        w.tasks <- (t, (rq, p)) :: w.tasks;
        w.queues <- set_nth w.queues rq (queue_add (List.nth w.queues rq) (n_of_int t) (prio_of_user p))
    | "BUSY" :: t :: wk :: _ ->
        let t = ios t and wk = ios wk in
        let rq, p = List.assoc t w.tasks in
        w.queues <- set_nth w.queues rq (queue_remove (List.nth w.queues rq) (n_of_int t) (prio_of_user p));
        let m = List.find (fun m -> m.id = wk) w.workers in
        (match rv_remove_cls m.free (class_of_variant (List.hd (List.nth w.vclasses rq))) (n_of_int 1) with
         | Ok f -> m.free <- f
         | _ -> pr "= PANIC insert_sn_task");
        m.assigned <- m.assigned @ [ rq ]
    | "CFG" :: _ -> ()
    | "PRIO" :: vals ->
        pr ("= ENC " ^ join " " (List.map (fun v -> string_of_n (prio_of_user (ios v))) vals))
    | "TAKE" :: rq :: count :: _ ->
        (match take_tasks (List.nth w.queues (ios rq)) (n_of_int (ios count)) with
         | Ok (ids, _) -> pr ("= TAKEN " ^ join " " (List.map string_of_n ids))
         | _ -> pr "= PANIC take_tasks")
    | "STATE" :: _ ->
        List.iter (fun m ->
            let get v r = string_of_n (rv_get v (n_of_int r)) in
            let rs = List.init w.n_res (fun r -> r) in
            pr (Printf.sprintf "= W %d res=%s free=%s assigned=%s prefilled=-" m.id
                  (join "," (List.map (get m.res) rs)) (join "," (List.map (get m.free) rs))
                  (join "," (List.map string_of_int (List.sort compare m.assigned)))))
          (List.sort (fun a b -> compare a.id b.id) w.workers);
        List.iteri (fun i q ->
            let ready = join ";" (List.map (fun (p, ids) -> string_of_n p ^ ":" ^ join "+" (List.map string_of_n ids)) q.q_ready) in
            let prefill = match q.q_prefill with
              | None -> "-"
              | Some (p, ids) -> string_of_n p ^ ":" ^ join "+" (List.map string_of_int (List.sort compare (List.map int_of_n ids))) in
            pr (Printf.sprintf "= Q %d ready=%s prefill=%s" i ready prefill)) w.queues;
        List.iteri (fun i q ->
            pr (Printf.sprintf "= PS %d %s" i
                  (join "," (List.map (fun (p, s) -> string_of_n p ^ ":" ^ string_of_n s) (iter_priority_sizes q))))) w.queues
    | "DECIDE" :: _ ->
        w.decided <- true;
        let i = build_inst w in
        w.inst <- Some i;
        (match create_task_batches i with
         | Ok bs ->
             w.batches <- bs;
             List.iter (fun b ->
                 let cuts = join ";" (List.map (fun c ->
                     Printf.sprintf "%d:%s" (int_of_n c.c_size)
                       (join "+" (List.map (fun (rq, s) -> match s with
                            | Some s -> Printf.sprintf "%d/%d" (int_of_n rq) (int_of_n s)
                            | None -> Printf.sprintf "%d/-" (int_of_n rq)) c.c_blockers))) b.b_cuts) in
                 pr (Printf.sprintf "= BATCH rq=%d size=%d limit=%d lr=%d blk=%d cuts=%s" (int_of_n b.b_rq)
                       (int_of_n b.b_size) (int_of_n b.b_limit) (if b.b_lr then 1 else 0) (if b.b_blk then 1 else 0) cuts);
                 if b.b_cuts <> [] then tag "cuts";
                 if List.length b.b_cuts >= 32 then tag "cuts-pruned";
                 if b.b_lr then tag "limit-reached") bs;
             List.iter (fun h -> List.iter (fun l ->
                 if h.b_rq <> l.b_rq then
                   List.iter (fun wk ->
                       if capable i wk h.b_rq then
                         match gap i wk h.b_rq l.b_rq with
                         | Ok g ->
                             pr (Printf.sprintf "= GAP %d %d %d %d" (int_of_n h.b_rq) (int_of_n l.b_rq) (int_of_n wk.w_id) (int_of_n g));
                             if int_of_n g > 0 then tag "gap-positive"
                         | _ -> pr "= PANIC gap") i.i_workers) bs) bs
         | _ -> pr "= PANIC create_task_batches")
    | "SOLUTION" :: rest ->
        let kv = List.map (fun s -> match String.index_opt s '=' with
            | Some k -> (String.sub s 0 k, String.sub s (k + 1) (String.length s - k - 1)) | None -> (s, "")) rest in
        let get k = try List.assoc k kv with Not_found -> "" in
        w.optimal <- get "optimal" = "1";
        let values = List.map ios (split_on ',' (get "values")) in
        let weights = List.map float_of_string (split_on ',' (get "weights")) in
        (match w.inst with
         | None -> ()
         | Some i ->
             (match milp_of i w.batches with
              | Ok m ->
                  w.milp <- m;
                  let vars = List.concat_map (function EVar (v, _, _) -> [ v ] | ERow _ -> []) m in
                  w.vars <- vars;
                  let idx = ref 0 in
                  List.iter (function
                      | EVar (v, _, _) -> pr (Printf.sprintf "= VAR %d %s" !idx (var_s v)); incr idx;
                          (match v with VR _ -> tag "reservation-var" | VB _ -> tag "blocker-var" | _ -> ())
                      | ERow r ->
                          let scale = match r.r_kind with RRes _ -> 1 | _ -> fr in
                          pr (Printf.sprintf "= ROW %s %d %s" (if r.r_le then "le" else "ge") (int_of_z r.r_bound * scale)
                                (join "," (List.map (fun (v, c) -> Printf.sprintf "%d:%d" (var_index vars v) (int_of_z c * scale)) r.r_terms))))
                    m;
                  let arr = Array.of_list values in
                  let s v = let k = var_index vars v in if k >= 0 && k < Array.length arr then z_of_int arr.(k) else Z0 in
                  w.solution <- Some s;
                  let ok = feasible m s && (Array.length arr = List.length vars || get "solved" = "0") in
                  w.solved_ok <- ok;
                  if get "solved" = "0" then (w.solved_ok <- true; tag "no-solution"; pr "= FEASIBLE -")
                  else pr (Printf.sprintf "= FEASIBLE %d" (if ok then 1 else 0));
                  let counts = List.concat_map (fun v -> match v with
                      | VX (wk, rq) -> let c = int_of_z (s v) in if c > 0 then [ (int_of_n rq, int_of_n wk, c) ] else []
                      | _ -> []) vars in
                  pr ("= COUNTS " ^ join "," (List.map (fun (rq, wk, c) -> Printf.sprintf "%d:%d:%d" rq wk c) (List.sort compare counts)));
                  (* objective weights: model value (exact rational) vs the f64 the solver got *)
                  let scale = float_of_n (objective_scale i) in
                  let mw = List.concat_map (function EVar (_, _, wt) -> [ float_of_z wt /. scale ] | ERow _ -> []) m in
                  let okw = List.length mw = List.length weights
                            && List.for_all2 (fun a b -> Float.abs (a -. b) <= 1e-9 *. Float.max 1.0 (Float.abs a)) mw weights in
                  pr (if okw then "= WEIGHTS ok" else "= WEIGHTS mismatch " ^ join "," (List.map (Printf.sprintf "%.12e") mw));
                  List.iter (fun v -> match v with
                      | VR _ when int_of_z (s v) = 1 -> tag "reservation-taken"
                      | VB _ when int_of_z (s v) = 1 -> tag "blocker-open"
                      | _ -> ()) vars
              | _ -> pr "= PANIC milp_of"))
    | "MAPPING" :: rest ->
        let kv = List.map (fun s -> match String.index_opt s '=' with
            | Some k -> (String.sub s 0 k, String.sub s (k + 1) (String.length s - k - 1)) | None -> (s, "")) rest in
        let get k = try List.assoc k kv with Not_found -> "" in
        let d = List.map (fun e -> match String.split_on_char ':' e with
            | [ wk; t ] -> (n_of_int (ios t), n_of_int (ios wk)) | _ -> failwith "bad assigned") (split_on ',' (get "assigned")) in
        (match w.inst, w.solution with
         | Some i, Some s ->
             let bs = w.batches in
             (* what take_tasks pops for the solved totals *)
             List.iteri (fun rq q ->
                 let total = placed_total i bs s (n_of_int rq) in
                 if List.exists (fun b -> int_of_n b.b_rq = rq) bs && int_of_n total > 0 then
                   match take_tasks q total with
                   | Ok (ids, _) -> pr (Printf.sprintf "= DISPATCH %d %s" rq (join " " (List.map string_of_int (List.sort compare (List.map int_of_n ids)))))
                   | _ -> pr "= PANIC take_tasks") i.i_queues;
             let ok = mapping_ok i bs s d in
             pr (Printf.sprintf "= MAPOK %d" (if ok then 1 else 0));
             List.iter (fun wk ->
                 match free_after i d wk with
                 | Some v -> pr (Printf.sprintf "= POST %d free=%s" (int_of_n wk.w_id)
                                   (join "," (List.init w.n_res (fun r -> string_of_n (rv_get v (n_of_int r))))))
                 | None ->
                     pr (Printf.sprintf "= POST %d OVERBOOKED" (int_of_n wk.w_id));
                     monitors := Printf.sprintf "M C05 FAIL overbooked worker=%d" (int_of_n wk.w_id) :: !monitors) i.i_workers;
             if d <> [] then tag "dispatch";
             if get "prefills" <> "-" then tag "prefill";
             (* C05, row system: placement variables only for placeable workers (checked on the real VAR lines by the diff);
                the real solution must be feasible for the model's rows *)
             if !impl_feasible = Some true && not w.solved_ok then begin
               monitors := "M C05 FAIL solution-infeasible-for-model-rows" :: !monitors;
               monitors := "M C15 FAIL solution-violates-model-rows the real solution is not a feasible point of the row system the model derives (cut / blocker / resource rows)" :: !monitors
             end;
             (* C15: the statement's domain is up to 8 priority levels, no worker time limits / blocked
                classes; outside of it (wide mode: many levels -> cut pruning, timed / blocked workers)
                inversions are only tagged *)
             let levels = List.sort_uniq compare (List.map (fun (_, (_, p)) -> p) w.tasks) in
             let in_domain = List.length levels <= 8
                             && not (List.exists (fun m -> m.tl <> None || m.blk <> []) w.workers) in
             if w.optimal && ok && not in_domain then begin
               if inversions i d <> [] then tag "inversion-out-of-domain"
             end
             else if w.optimal && ok then begin
               let invs = inversions i d in
               if invs <> [] then begin
                 tag "inversion";
                 if !trace_mode = "exact" then tag "exact-candidate-class-inversion";
                 let seen = ref [] in
                 List.iter (fun (((t, wk), u) as x) ->
                     let v = classify i bs s d x in
                     let cls = match v with VK1 -> "K1-cut-budget-per-row" | VK2 -> "K2-gap-per-low-class" | VK3 -> "K3-mapping-ignores-priority" | VK4 -> "K4-gap-ignores-same-decision" | VK5 -> "K5-held-back-for-unplaced-blocker" | VUnclassified -> "unclassified-inversion" in
                     if not (List.mem cls !seen) then begin
                       seen := cls :: !seen;
                       let detail = Printf.sprintf "task=%s(rq%d,prio=%s) on worker=%d while task=%s(rq%d,prio=%s) waits"
                           (string_of_n t.t_id) (int_of_n t.t_rq) (string_of_n t.t_prio) (int_of_n wk.w_id)
                           (string_of_n u.t_id) (int_of_n u.t_rq) (string_of_n u.t_prio) in
                       (match v with
                        | VK1 -> tag "k1"; monitors := ("M C15 KNOWN " ^ cls ^ " " ^ detail) :: !monitors
                        | VK2 -> tag "k2"; monitors := ("M C15 KNOWN " ^ cls ^ " " ^ detail) :: !monitors
                        | VK3 -> tag "k3"; monitors := ("M C15 KNOWN " ^ cls ^ " " ^ detail) :: !monitors
                        | VK4 -> tag "k4"; monitors := ("M C15 KNOWN " ^ cls ^ " " ^ detail) :: !monitors
                        | VK5 -> tag "k5"; monitors := ("M C15 KNOWN " ^ cls ^ " " ^ detail) :: !monitors
                        | VUnclassified -> tag "unclassified"; monitors := ("M C15 FAIL " ^ cls ^ " " ^ detail) :: !monitors)
                     end) invs
               end
             end
             else if not w.optimal then tag "non-optimal";
             if not ok then monitors := "M C15 FAIL dispatch-not-take-tasks-order" :: !monitors
         | _ -> ())
    | _ -> ()
  in
  List.iter (fun line ->
      if String.length line > 2 then begin
        let body = String.sub line 2 (String.length line - 2) in
        match line.[0] with
        | 'C' -> (match split body with "res" :: n :: _ -> w.n_res <- ios n | _ -> ())
        | 'O' -> cur := body; handle_op (split body) line
        | '=' -> (match split body with
            | "FEASIBLE" :: v :: _ -> if v <> "-" then impl_feasible := Some (v = "1")
            | ("RESPONSE" | "INVALID" | "PANIC") :: _ when !query_seen -> impl_resp := !impl_resp @ [ body ]
            | "MNSORTED" :: v :: _ when !query_seen ->
                if v <> "1" then monitors := "M C17 FAIL mn-list-not-sorted the multi-node list is not sorted by (worker_type, worker_per_allocation)" :: !monitors
            | _ -> ())
        | _ -> ()
      end) lines;
  !query_check !impl_resp;
  List.iter pr (List.rev !monitors);
  if List.length w.classes >= 2 then tag "multi-class";
  (* `All` policy in the row-system modes: how often, and how often next to a partly busy worker that has
     the resource (the case in which demand = TOTAL matters) *)
  if w.decided && not (List.mem "variants" !tags) then begin
    let all_rs = List.concat_map (fun vs -> match vs with v :: _ -> v.v_all | [] -> []) w.vclasses in
    if all_rs <> [] then begin
      tag "all-policy";
      if List.exists (fun vs -> match vs with v :: _ -> v.v_all <> [] && v.v_entries <> [] | [] -> false) w.vclasses then tag "all-policy-multi-resource";
      if List.exists (fun m -> m.assigned <> [] && List.exists (fun r -> rv_get m.res r <> N0 && rv_get m.free r <> N0) all_rs) w.workers
      then tag "all-policy-busy-worker"
    end
  end;
  if w.n_res >= 2 then tag "multi-resource";
  if List.exists (fun m -> m.assigned <> []) w.workers then tag "busy-worker";
  if w.decided && List.exists (fun m -> m.tl <> None) w.workers && not (List.mem "variants" !tags) then tag "timed-workers";
  if w.decided && List.exists (fun m -> m.blk <> []) w.workers && not (List.mem "variants" !tags) then tag "blocked-class";
  if List.length w.workers >= 2 then tag "multi-worker";
  (* non-trivial: an optimal solve that dispatched something in an instance where priorities interact (a cut exists) *)
  if List.mem "cuts" !tags && List.mem "dispatch" !tags && w.optimal then tag "nontrivial";
  List.iter (fun t -> pr ("T " ^ t)) (List.sort compare !tags);
  pr "END"

let () =
  let header = ref "" and acc = ref [] in
  (try
     while true do
       let line = input_line stdin in
       if String.length line >= 6 && String.sub line 0 6 = "TRACE " then begin
         header := (match split line with _ :: id :: _ -> "TRACE " ^ id | _ -> line);
         trace_mode := (match split line with _ :: _ :: m :: _ -> m | _ -> "");
         acc := []
       end
       else if line = "END" then begin
         process_trace !header (List.rev !acc);
         print_string (Buffer.contents out);
         Buffer.clear out
       end
       else acc := line :: !acc
     done
   with End_of_file -> ())
