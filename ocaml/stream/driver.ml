(* modelrun-stream: replays the harness' operations on the extracted Coq model (Stream_model),
   prints the model's outputs, and evaluates the C19 monitors on the implementation's outputs. *)
module M = Stream_model

let rec pos_of_int i = if i = 1 then M.XH else if i land 1 = 0 then M.XO (pos_of_int (i lsr 1)) else M.XI (pos_of_int (i lsr 1))
let n_of_int i = if i = 0 then M.N0 else M.Npos (pos_of_int i)
let rec int_of_pos = function M.XH -> 1 | M.XO p -> 2 * int_of_pos p | M.XI p -> 2 * int_of_pos p + 1
let int_of_n = function M.N0 -> 0 | M.Npos p -> int_of_pos p
let z_of_int i = if i = 0 then M.Z0 else if i > 0 then M.Zpos (pos_of_int i) else M.Zneg (pos_of_int (-i))

(* the 256 byte values, shared *)
let byte_tbl = Array.init 256 n_of_int
let nbytes_of_string (s : string) : M.n list =
  let l = ref [] in
  for i = String.length s - 1 downto 0 do l := byte_tbl.(Char.code s.[i]) :: !l done;
  !l
let string_of_nbytes (l : M.n list) : string =
  let b = Buffer.create 64 in
  List.iter (fun x -> Buffer.add_char b (Char.chr (int_of_n x land 255))) l;
  Buffer.contents b

let split s = List.filter (fun x -> x <> "") (String.split_on_char ' ' s)
let ios = int_of_string

(* mirrored in the harness *)
let gen_data seed len =
  let x = ref (seed land 0x7fffffff) in
  String.init len (fun _ ->
      x := (!x * 1103515245 + 12345) land 0x7fffffff;
      Char.chr ((!x lsr 16) land 0xff))

let fnv s =
  let h = ref 0x811c9dc5 in
  String.iter (fun c -> h := ((!h lxor Char.code c) * 16777619) land 0xffffffff) s;
  !h
let hl s = Printf.sprintf "%d:%08x" (String.length s) (fnv s)
let hln l = hl (string_of_nbytes l)

let unhex s =
  if s = "-" then "" else String.init (String.length s / 2) (fun i -> Char.chr (int_of_string ("0x" ^ String.sub s (2 * i) 2)))

let rres_s f = function M.ROk a -> f a | M.RErr e -> "E" ^ string_of_int (int_of_n e) | M.RPanic s -> "P" ^ string_of_int (int_of_n s)

type file = {
  wid : int;
  mutable orig : M.n list;          (* content at STOP time *)
  mutable cur : M.n list;           (* current content *)
  mutable curlen : int;
  wf : M.wFile option;              (* what the writer was asked to write (None: junk) *)
  mutable raw : bool;               (* content replaced by arbitrary bytes *)
  hqs : bool;
}

let starts_with p s = String.length s >= String.length p && String.sub s 0 (String.length p) = p
let after p s = String.sub s (String.length p) (String.length s - String.length p)

let process_trace header lines =
  print_endline header;
  let uid = ref "" and wids = ref [||] and ndirs = ref 1 in
  let writers : (int * int, M.wFile) Hashtbl.t = Hashtbl.create 8 in
  let files : (int * int, file) Hashtbl.t = Hashtbl.create 8 in        (* (dir, wid) *)
  let junk : (int, file) Hashtbl.t = Hashtbl.create 4 in              (* dir -> junk entries *)
  let tags = Hashtbl.create 8 in
  let tag t = Hashtbl.replace tags t () in
  let fails = ref [] and knowns = ref [] in
  let stopped = Hashtbl.create 4 in
  let impl_out = ref [] in     (* impl "=" lines of the current op *)
  let cur_check = ref (fun (_ : string list) -> ()) in
  let flush_check () =
    !cur_check (List.rev !impl_out);
    impl_out := [];
    cur_check := fun _ -> ()
  in
  let out s = print_endline ("= " ^ s) in
  let get_writer w d =
    match Hashtbl.find_opt writers (w, d) with
    | Some x -> x
    | None ->
        let x = M.writer_new (nbytes_of_string !uid) (n_of_int !wids.(w)) in
        Hashtbl.replace writers (w, d) x;
        x
  in
  let is_stopped w = Hashtbl.mem stopped w in
  let all_stopped () = Array.for_all (fun _ -> true) !wids && (let ok = ref true in Array.iteri (fun i _ -> if not (is_stopped i) then ok := false) !wids; !ok) in
  let opened = Hashtbl.create 8 in
  (* abstract (spec level) view of the current directory content: the files whose header survives *)
  let afile_of (f : file) : M.aFile option =
    match f.wf with
    | Some wf when not f.raw -> M.cut_file wf.M.wf_hdr wf.M.wf_recs (n_of_int f.curlen)
    | _ -> None
  in
  let orig_afile_of (f : file) : M.aFile option =
    match f.wf with Some wf -> Some { M.af_hdr = wf.M.wf_hdr; af_recs = wf.M.wf_recs; af_torn = None } | None -> None
  in
  let do_read d filter order =
    let fl = Hashtbl.fold (fun (dd, _) f acc -> if dd = d then f :: acc else acc) files [] in
    let jl = Hashtbl.find_all junk d in
    let in_order = List.filter_map (fun w -> List.find_opt (fun f -> f.wid = w) fl) order in
    let rest = List.filter (fun f -> not (List.mem f.wid order)) fl in
    let ents = List.map (fun f -> { M.de_hqs = f.hqs; de_bytes = f.cur }) (in_order @ rest @ jl) in
    let filt = match filter with None -> None | Some u -> Some (nbytes_of_string u) in
    (match M.open0 ents filt with
    | M.RErr e -> out ("OPENERR " ^ string_of_int (int_of_n e)); tag "open-error"
    | M.RPanic s -> out ("PANIC " ^ string_of_int (int_of_n s)); tag "panic"
    | M.ROk lg ->
        let np = List.length lg.M.lg_paths in
        if np <> List.length in_order || List.length in_order <> List.length order
           || not (List.for_all2 (fun p f -> p == f.cur || p = f.cur) lg.M.lg_paths in_order)
        then out "BADWITNESS accepted-files";
        out (Printf.sprintf "FILES %d" np);
        let wid_of i = match List.nth_opt in_order i with Some f -> f.wid | None -> 4294967295 in
        let idx = lg.M.lg_index in
        let keys = List.sort compare (List.map (fun ((j, t), _) -> (int_of_n j, int_of_n t)) idx) in
        let lim = n_of_int (1 lsl 26) in
        let huge = List.exists (fun (_, insts) -> List.exists (fun i -> M.N.ltb lim (M.channel_size i M.N0) || M.N.ltb lim (M.channel_size i (n_of_int 1))) insts) idx in
        List.iter
          (fun (j, t) ->
            let insts = match M.lookup (n_of_int j, n_of_int t) idx with Some l -> l | None -> [] in
            let last = M.last_opt insts in
            let b = Buffer.create 64 in
            Buffer.add_string b (Printf.sprintf "T %d %d" j t);
            (match last with
            | None -> Buffer.add_string b " last=- fin=0"
            | Some l -> Buffer.add_string b (Printf.sprintf " last=%d fin=%d" (int_of_n l.M.in_id) (if l.M.in_fin then 1 else 0)));
            for ch = 0 to 1 do
              Buffer.add_string b (Printf.sprintf " c%d=%s" ch (if huge then "HUGE" else rres_s hln (M.read_channel lg (n_of_int j) (n_of_int t) (n_of_int ch))))
            done;
            let il =
              List.map
                (fun (i : M.inst) ->
                  Printf.sprintf "%d@%d:%d:%d:%d:%d:%d" (int_of_n i.M.in_id) (wid_of (int_of_n i.M.in_file)) (if i.M.in_fin then 1 else 0)
                    (List.length i.M.in_c0) (List.length i.M.in_c1)
                    (int_of_n (M.channel_size i M.N0)) (int_of_n (M.channel_size i (n_of_int 1))))
                insts
            in
            Buffer.add_string b (" insts=" ^ String.concat "," il);
            out (Buffer.contents b))
          keys;
        (match M.summary0 lg with
        | M.ROk s ->
            let i = int_of_n in
            out (Printf.sprintf "SUM files=%d jobs=%d tasks=%d streams=%d opened=%d out=%d err=%d sup=%d supout=%d superr=%d" (i s.M.s_files) (i s.M.s_jobs)
                   (i s.M.s_tasks) (i s.M.s_streams) (i s.M.s_opened) (i s.M.s_out) (i s.M.s_err) (i s.M.s_superseded) (i s.M.s_sup_out) (i s.M.s_sup_err))
        | M.RPanic s -> out ("SUM PANIC " ^ string_of_int (int_of_n s))
        | M.RErr e -> out ("SUM E" ^ string_of_int (int_of_n e)));
        if not huge then List.iter
          (fun (j, t) ->
            for ch = 0 to 1 do
              out (Printf.sprintf "CAT %d %d %d %s" j t ch (rres_s hln (M.cat lg (n_of_int j) (n_of_int t) (n_of_int ch) false)))
            done)
          keys;
        let jobs = if huge then [] else List.sort_uniq compare (List.map fst keys) in
        List.iter
          (fun j ->
            for ch = 0 to 1 do
              out (Printf.sprintf "CATJOB %d %d %s" j ch (rres_s hln (M.cat_job lg (n_of_int j) (n_of_int ch) true)))
            done;
            out
              (Printf.sprintf "EXPORT %d %s" j
                 (rres_s
                    (fun fl ->
                      "ok fins=" ^ if fl = [] then "-" else String.concat "" (List.map (fun b -> if b then "1" else "0") fl))
                    (M.export_job lg (n_of_int j)))))
          jobs);
    (* ---- monitors, evaluated on the implementation's T lines ---- *)
    let raw = List.exists (fun f -> f.raw) fl in
    let other_uid = List.exists (fun f -> f.wf = None && f.hqs) fl in
    if List.exists (fun f -> f.curlen < List.length f.orig) fl then tag "torn-read";
    if raw then tag "raw";
    let multi = other_uid && filter = None in
    let wrong_filter = match filter with Some u -> u <> !uid | None -> false in
    if (not raw) && (not multi) && not wrong_filter then begin
      let considered = List.filter (fun f -> f.wf <> None) fl in
      let fs = List.filter_map afile_of considered in
      let orig = List.filter_map orig_afile_of considered in
      if not (List.for_all M.afile_ok fs) then fails := "M C19 FAIL harness-input-not-ok a generated file violates afile_ok" :: !fails;
      cur_check :=
        fun impl ->
          let seen = M.all_seen fs in
          let tkeys = List.sort_uniq compare (List.map (fun (r : M.rec0) -> (int_of_n r.M.r_hdr.M.ch_job, int_of_n r.M.r_hdr.M.ch_task)) seen) in
          let tlines = List.filter_map (fun l -> match split l with "T" :: j :: t :: rest -> Some ((ios j, ios t), rest) | _ -> None) impl in
          if List.exists (fun l -> starts_with "OPENERR" l || starts_with "PANIC" l) impl then begin
            if List.exists (fun f -> f.hqs) (fl @ jl) then fails := (Printf.sprintf "M C19 FAIL open-failed dir=%d the reader refused a directory of writer-produced (possibly cut) files: %s" d (String.concat "|" impl)) :: !fails
          end
          else begin
            List.iter
              (fun (j, t) ->
                let k = (n_of_int j, n_of_int t) in
                match List.assoc_opt (j, t) tlines with
                | None -> fails := Printf.sprintf "M C19 FAIL task-missing dir=%d task=%d/%d has surviving chunks but is not in the index" d j t :: !fails
                | Some fields ->
                    let field name = match List.find_opt (starts_with (name ^ "=")) fields with Some s -> after (name ^ "=") s | None -> "?" in
                    if not (M.last_contig fs k) then tag "hyp-violated"
                    else begin
                      let exp_last = match M.max_inst k seen with Some i -> string_of_int (int_of_n i) | None -> "-" in
                      let exp_fin = if M.spec_fin fs k then "1" else "0" in
                      let exp_c ch = rres_s hln (M.spec_read fs k (n_of_int ch)) in
                      let chk name exp = if field name <> exp then fails := Printf.sprintf "M C19 FAIL read-mismatch dir=%d task=%d/%d %s: reader=%s written=%s" d j t name (field name) exp :: !fails in
                      chk "last" exp_last;
                      chk "fin" exp_fin;
                      chk "c0" (exp_c 0);
                      chk "c1" (exp_c 1);
                      (* torn-file safety: an OK result is never anything but the chunks the instance wrote *)
                      if String.length (exp_c 0) > 0 && (exp_c 0).[0] = 'E' || (exp_c 1).[0] = 'E' then tag "torn-chunk-error";
                      (* finished => complete, relative to everything the task wrote (known finding F20) *)
                      (match M.max_inst k (M.all_seen orig), M.max_inst k seen with
                      | Some i0, Some i when i0 = i && field "fin" = "1" ->
                          let full ch = hln (M.spec_bytes k i0 (n_of_int ch) (M.all_complete orig)) in
                          let incomplete = field "c0" <> full 0 || field "c1" <> full 1 in
                          if incomplete then
                            if M.f20_class orig fs k then begin
                              tag "f20";
                              knowns := Printf.sprintf "M C19 KNOWN F20-finished-on-first-close dir=%d task=%d/%d reported finished, c0=%s (written %s) c1=%s (written %s)" d j t (field "c0") (full 0) (field "c1") (full 1) :: !knowns
                            end
                            else fails := Printf.sprintf "M C19 FAIL finished-but-incomplete dir=%d task=%d/%d c0=%s (written %s) c1=%s (written %s)" d j t (field "c0") (full 0) (field "c1") (full 1) :: !fails
                      | Some i0, Some i when i0 <> i -> tag "last-instance-lost"
                      | _ -> ());
                      (* superseded instances reported separately *)
                      if M.all_contig fs k then begin
                        let others = M.other_insts fs k in
                        let exp =
                          String.concat ","
                            (List.map (fun i -> Printf.sprintf "%d:%d:%d" (int_of_n i) (int_of_n (M.spec_size k i M.N0 seen)) (int_of_n (M.spec_size k i (n_of_int 1) seen))) others)
                        in
                        let got =
                          match String.split_on_char ',' (field "insts") with
                          | [] -> ""
                          | l ->
                              let l = List.filteri (fun i _ -> i < List.length l - 1) l in
                              String.concat ","
                                (List.map
                                   (fun s ->
                                     match String.split_on_char ':' s with
                                     | [ idw; _; _; _; s0; s1 ] -> (List.hd (String.split_on_char '@' idw)) ^ ":" ^ s0 ^ ":" ^ s1
                                     | _ -> "?")
                                   l)
                        in
                        if others <> [] then tag "superseded";
                        if exp <> got then fails := Printf.sprintf "M C19 FAIL superseded-mismatch dir=%d task=%d/%d reader=%s written=%s" d j t got exp :: !fails
                      end
                    end)
              tkeys;
            List.iter
              (fun ((j, t), _) -> if not (List.mem (j, t) tkeys) then fails := Printf.sprintf "M C19 FAIL phantom-task dir=%d task=%d/%d is in the index but nothing of it is in the files" d j t :: !fails)
              tlines
          end
    end
  in
  List.iter
    (fun line ->
      if String.length line > 2 then begin
        let body = String.sub line 2 (String.length line - 2) in
        match line.[0] with
        | 'C' -> (
            match split body with
            | "uid" :: u :: "workers" :: rest ->
                let rec go acc = function "dirs" :: n :: _ -> (List.rev acc, ios n) | x :: r -> go (ios x :: acc) r | [] -> (List.rev acc, 1) in
                let ws, nd = go [] rest in
                uid := u;
                wids := Array.of_list ws;
                ndirs := nd
            | _ -> ())
        | 'O' -> (
            flush_check ();
            print_endline line;
            match split body with
            | [ "OPEN"; w; d; j; t; i ] ->
                ignore (get_writer (ios w) (ios d));
                Hashtbl.replace opened (ios w, ios d, ios j, ios t, ios i) ();
                out "OK"
            | [ "SEND"; w; d; j; t; i; ch; seed; len; time ] ->
                let w = ios w and d = ios d in
                let wf = get_writer w d in
                let data = gen_data (ios seed) (ios len) in
                if ios len = 0 then tag "end-marker";
                if ios len = 16384 then tag "bufsize-chunk";
                if ios len > 16384 then tag "over-bufsize-chunk";
                Hashtbl.replace writers (w, d)
                  (M.writer_write wf (z_of_int (ios time)) (n_of_int (ios j)) (n_of_int (ios t)) (n_of_int (ios i)) (n_of_int (ios ch)) (nbytes_of_string data))
            | [ "FLUSH"; w; d; _; _; _ ] ->
                let w = ios w and d = ios d in
                Hashtbl.replace writers (w, d) (M.writer_flush (get_writer w d));
                out "OK"
            | "SENDFAIL" :: _ -> ()
            | [ "JUNK"; d; kind; wid ] ->
                let d = ios d and wid = ios wid in
                let mk hqs bytes wf = { wid; orig = bytes; cur = bytes; curlen = List.length bytes; wf; raw = false; hqs } in
                (match kind with
                | "nonhqs" -> Hashtbl.add junk d (mk false (nbytes_of_string "hello") None)
                | "empty" -> Hashtbl.add junk d (mk true [] None)
                | "badmagic" -> Hashtbl.add junk d (mk true (nbytes_of_string "hqsf0001\x01a\x05") None)
                | "tornhdr" ->
                    let b = M.enc_file_header { M.fh_uid = nbytes_of_string !uid; fh_worker = n_of_int wid } in
                    let b = List.filteri (fun i _ -> i < List.length b - 1) b in
                    Hashtbl.add junk d (mk true b None)
                | "otheruid" ->
                    let w0 = M.writer_new (nbytes_of_string "otherserver") (n_of_int wid) in
                    let w1 = M.writer_write w0 (z_of_int 1700000000000) (n_of_int 1) M.N0 (n_of_int 9) M.N0 (nbytes_of_string "xyz") in
                    Hashtbl.replace files (d, wid) (mk true (M.writer_bytes w1) None)
                | _ -> ())
            | [ "STOP"; w; mode; lens ] ->
                let w = ios w in
                Hashtbl.replace stopped w ();
                if mode = "kill" then tag "kill";
                let lens = if lens = "lens=-" then [] else List.map (fun s -> match String.split_on_char ':' s with [ d; "x" ] -> (ios d, -2) | [ d; l ] -> (ios d, ios l) | _ -> failwith "lens") (String.split_on_char ',' (after "lens=" lens)) in
                for d = 0 to !ndirs - 1 do
                  match Hashtbl.find_opt writers (w, d) with
                  | None -> ()
                  | Some wf ->
                      let wf = if mode = "flush" then M.writer_flush wf else wf in
                      let full = M.writer_bytes wf in
                      let len = match List.assoc_opt d lens with Some l -> l | None -> -1 in
                      let wid = !wids.(w) in
                      if len = -2 then begin
                        (* the file was never created: fine if nothing was flushed *)
                        if int_of_n wf.M.wf_flushed > 0 then out (Printf.sprintf "BADWITNESS file %d %d missing although %d bytes were flushed" wid d (int_of_n wf.M.wf_flushed));
                        tag "kill-no-file"
                      end
                      else if len < 0 then out (Printf.sprintf "BADWITNESS no length for file %d %d" wid d)
                      else if not (M.kill_len_ok wf (n_of_int len)) then
                        out (Printf.sprintf "BADWITNESS file %d %d has %d bytes on disk, flushed=%d written=%d" wid d len (int_of_n wf.M.wf_flushed) (List.length full))
                      else begin
                        let content = M.firstnN (n_of_int len) full in
                        if len < List.length full then tag "kill-lost-tail";
                        out (Printf.sprintf "FILE %d %d %s" wid d (hln content));
                        Hashtbl.replace files (d, wid) { wid; orig = content; cur = content; curlen = len; wf = Some wf; raw = false; hqs = true }
                      end
                done
            | [ "CUT"; d; wid; off ] -> (
                match Hashtbl.find_opt files (ios d, ios wid) with
                | Some f ->
                    f.cur <- M.firstnN (n_of_int (ios off)) f.orig;
                    f.curlen <- ios off;
                    f.raw <- false;
                    out ("LEN " ^ hln f.cur)
                | None -> out "NOFILE")
            | [ "RESTORE"; d; wid ] -> (
                match Hashtbl.find_opt files (ios d, ios wid) with
                | Some f ->
                    f.cur <- f.orig;
                    f.curlen <- List.length f.orig;
                    f.raw <- false;
                    out ("LEN " ^ hln f.cur)
                | None -> out "NOFILE")
            | [ "RAW"; d; wid; h ] -> (
                match Hashtbl.find_opt files (ios d, ios wid) with
                | Some f ->
                    f.cur <- nbytes_of_string (unhex h);
                    f.curlen <- List.length f.cur;
                    f.raw <- true;
                    out ("LEN " ^ hln f.cur)
                | None -> out "NOFILE")
            | [ "READ"; d; filter; order ] ->
                let filter = match after "filter=" filter with "-" -> None | u -> Some u in
                let order = match after "order=" order with "-" -> [] | s -> List.map ios (String.split_on_char ',' s) in
                ignore all_stopped;
                do_read (ios d) filter order
            | _ -> out "UNKNOWN-OP")
        | '=' -> impl_out := body :: !impl_out
        | _ -> ()
      end)
    lines;
  flush_check ();
  (* classification *)
  let multi_inst = ref false and interleaved = ref false and multi_file = ref false and empty_out = ref false in
  let per_dir = Hashtbl.create 4 in
  Hashtbl.iter
    (fun (w, d) (wf : M.wFile) ->
      ignore w;
      Hashtbl.replace per_dir d (1 + try Hashtbl.find per_dir d with Not_found -> 0);
      let ids = List.map (fun (r : M.rec0) -> (int_of_n r.M.r_hdr.M.ch_job, int_of_n r.M.r_hdr.M.ch_task, int_of_n r.M.r_hdr.M.ch_inst)) wf.M.wf_recs in
      let distinct = List.sort_uniq compare ids in
      (* interleaved: some stream's records are not contiguous in the file *)
      let rec runs prev n = function [] -> n | x :: r -> if Some x = prev then runs prev n r else runs (Some x) (n + 1) r in
      if runs None 0 ids > List.length distinct then interleaved := true;
      let tasks = List.sort_uniq compare (List.map (fun (j, t, _) -> (j, t)) distinct) in
      if List.length tasks < List.length distinct then multi_inst := true;
      List.iter
        (fun s ->
          if not (List.exists (fun (r : M.rec0) -> (int_of_n r.M.r_hdr.M.ch_job, int_of_n r.M.r_hdr.M.ch_task, int_of_n r.M.r_hdr.M.ch_inst) = s && int_of_n r.M.r_hdr.M.ch_size > 0) wf.M.wf_recs)
          then empty_out := true)
        distinct)
    writers;
  let all_ids =
    Hashtbl.fold
      (fun (_, d) (wf : M.wFile) acc -> List.map (fun (r : M.rec0) -> (d, int_of_n r.M.r_hdr.M.ch_job, int_of_n r.M.r_hdr.M.ch_task, int_of_n r.M.r_hdr.M.ch_inst)) wf.M.wf_recs @ acc)
      writers []
  in
  let streams = List.sort_uniq compare all_ids in
  let tasks = List.sort_uniq compare (List.map (fun (d, j, t, _) -> (d, j, t)) streams) in
  if List.length tasks < List.length streams then multi_inst := true;
  Hashtbl.iter (fun _ n -> if n > 1 then multi_file := true) per_dir;
  List.iter print_endline (List.rev !fails);
  List.iter print_endline (List.rev !knowns);
  if !multi_inst then tag "multi-instance";
  if !interleaved then tag "interleaved";
  if !multi_file then tag "multi-file";
  if !empty_out then tag "empty-output";
  Hashtbl.iter (fun t () -> print_endline ("T " ^ t)) tags;
  if !multi_inst || !interleaved || Hashtbl.mem tags "torn-read" || Hashtbl.mem tags "kill-lost-tail" || Hashtbl.mem tags "raw" then print_endline "T nontrivial";
  print_endline "END"

let () =
  let header = ref "" and acc = ref [] in
  try
    while true do
      let line = input_line stdin in
      if String.length line >= 6 && String.sub line 0 6 = "TRACE " then begin
        header := (match split line with _ :: id :: _ -> "TRACE " ^ id | _ -> line);
        acc := []
      end
      else if line = "END" then process_trace !header (List.rev !acc)
      else acc := line :: !acc
    done
  with End_of_file -> ()
