(* modelrun-auth: replays the harness' symbolic operations on the extracted Coq model
   (Auth_model), prints the model's outputs, and evaluates the C20 monitors on the
   implementation's outputs. *)
open Auth_model

let rec pos_of_int i = if i = 1 then XH else if i land 1 = 0 then XO (pos_of_int (i lsr 1)) else XI (pos_of_int (i lsr 1))
let n_of_int i = if i = 0 then N0 else Npos (pos_of_int i)
let rec int_of_pos = function XH -> 1 | XO p -> 2 * int_of_pos p | XI p -> 2 * int_of_pos p + 1
let int_of_n = function N0 -> 0 | Npos p -> int_of_pos p
let rec nat_of_int i = if i = 0 then O else S (nat_of_int (i - 1))

let split s = List.filter (fun x -> x <> "") (String.split_on_char ' ' s)
let ios = int_of_string

let parse_chal s =
  let n = n_of_int (ios (String.sub s 1 (String.length s - 1))) in
  if s.[0] = 'h' then HC n else AC n
let chal_s = function HC n -> "h" ^ string_of_int (int_of_n n) | AC n -> "a" ^ string_of_int (int_of_n n)

let parse_cipher s =
  if String.length s > 2 && String.sub s 0 2 = "s:" then
    match String.split_on_char ':' s with
    | [ _; k; r; c; l ] -> Sealed (n_of_int (ios k), n_of_int (ios r), parse_chal c, n_of_int (ios l))
    | _ -> failwith ("bad cipher " ^ s)
  else Garbage (n_of_int (ios (String.sub s 1 (String.length s - 1))))
let cipher_s = function
  | Sealed (k, r, c, l) -> Printf.sprintf "s:%d:%d:%s:%d" (int_of_n k) (int_of_n r) (chal_s c) (int_of_n l)
  | Garbage g -> "g" ^ string_of_int (int_of_n g)

let parse_req = function
  | p :: r :: "noauth" :: _ -> { rq_protocol = n_of_int (ios p); rq_role = n_of_int (ios r); rq_mode = MNoAuth }
  | p :: r :: "enc" :: c :: l :: _ -> { rq_protocol = n_of_int (ios p); rq_role = n_of_int (ios r); rq_mode = MEnc (parse_chal c, n_of_int (ios l)) }
  | _ -> failwith "bad request"
let req_s q =
  match q.rq_mode with
  | MNoAuth -> Printf.sprintf "%d %d noauth" (int_of_n q.rq_protocol) (int_of_n q.rq_role)
  | MEnc (c, l) -> Printf.sprintf "%d %d enc %s %d" (int_of_n q.rq_protocol) (int_of_n q.rq_role) (chal_s c) (int_of_n l)

let parse_resp = function
  | "noauth" :: _ -> RNoAuth
  | "err" :: _ -> RErr
  | "enc" :: c :: _ -> REnc (parse_cipher c)
  | _ -> failwith "bad response"
let resp_s = function RNoAuth -> "noauth" | RErr -> "err" | REnc c -> "enc " ^ cipher_s c

let parse_op toks =
  match toks with
  | "NEW" :: p :: me :: peer :: k :: _ ->
      ONew (n_of_int (ios p), n_of_int (ios me), n_of_int (ios peer), if k = "-" then None else Some (n_of_int (ios k)))
  | "RESP" :: e :: rest -> OResp (n_of_int (ios e), parse_req rest)
  | "FIN" :: e :: rest -> OFin (n_of_int (ios e), parse_resp rest)
  | _ -> failwith "bad op"

let out_s = function
  | OutReq q -> "REQ " ^ req_s q
  | OutResp r -> "RESP " ^ resp_s r
  | OutFin b -> "FIN " ^ if b then "accept" else "reject"
  | OutDisabled -> "DISABLED"

(* shadow endpoint built from the implementation's outputs *)
let upd_list l i x = List.mapi (fun j y -> if j = i then x else y) l

let process_trace header lines =
  print_endline header;
  let bad_keys = ref [] in
  let mstate = ref [] in
  let istate = ref ([] : ep list) in
  let ireq = ref [] in   (* impl request emitted by endpoint i (symbolic string) *)
  let resp_op_in = ref [] in (* (e, request string delivered) *)
  let fin_op_in = ref [] in
  let accepts = ref 0 and forged = ref false and f19 = ref false in
  let fails = ref [] and knowns = ref [] in
  let bad k = List.mem (int_of_n k) !bad_keys in
  let cur_op = ref None in
  let handle_out impl_line =
    (* impl_line: the implementation's output for the current op *)
    match !cur_op with
    | None -> ()
    | Some o -> (
        let toks = split impl_line in
        match (o, toks) with
        | ONew (p, me, peer, k), "REQ" :: rest ->
            let q = parse_req rest in
            let ch = match q.rq_mode with MEnc (c, _) -> Some c | MNoAuth -> None in
            let a = { a_protocol = p; a_my_role = me; a_peer_role = peer; a_key = k; a_challenge = ch; a_error = false; a_sealer = false } in
            istate := !istate @ [ { ep_auth = a; ep_req_in = None; ep_resp_out = None; ep_resp_when = N0; ep_result = None } ];
            ireq := !ireq @ [ req_s q ]
        | OResp (e, q), "RESP" :: rest ->
            let i = int_of_n e in
            let r = parse_resp rest in
            let x = List.nth !istate i in
            istate := upd_list !istate i { x with ep_req_in = Some q; ep_resp_out = Some r; ep_resp_when = n_of_int (List.length !istate) };
            resp_op_in := (i, req_s q) :: !resp_op_in
        | OFin (e, r), "FIN" :: v :: _ ->
            let i = int_of_n e in
            let x = List.nth !istate i in
            let acc = v = "accept" in
            fin_op_in := (i, resp_s r) :: !fin_op_in;
            if acc then begin
              incr accepts;
              if not (authentic bad !istate e x r) then
                fails := Printf.sprintf "M C20 FAIL unauthentic-accept endpoint=%d response=%s" i (resp_s r) :: !fails
              else if not (authentic_proto bad !istate e x r) then begin
                f19 := true;
                knowns := Printf.sprintf "M C20 KNOWN F19-protocol-field-unbound endpoint=%d accepted a voucher speaking another protocol number" i :: !knowns
              end
            end;
            istate := upd_list !istate i { x with ep_result = Some acc }
        | _ -> ())
  in
  List.iter
    (fun line ->
      if String.length line > 2 then
        let body = String.sub line 2 (String.length line - 2) in
        match line.[0] with
        | 'C' -> (
            match split body with
            | "bad" :: ks -> bad_keys := List.map ios ks
            | _ -> ())
        | 'O' ->
            let o = parse_op (split body) in
            cur_op := Some o;
            if not (deliverable bad !mstate o) then forged := true;
            let s', out = step !mstate o in
            mstate := s';
            print_endline line;
            print_endline ("= " ^ out_s out)
        | '=' -> handle_out body
        | _ -> ())
    lines;
  (* undisturbed pairs: (2i, 2i+1) that received exactly each other's messages *)
  let n = List.length !istate in
  let undisturbed = ref 0 in
  let get l i = try Some (List.assoc i l) with Not_found -> None in
  let i = ref 0 in
  while !i + 1 < n do
    let a = !i and b = !i + 1 in
    let xa = List.nth !istate a and xb = List.nth !istate b in
    (match (get !resp_op_in a, get !resp_op_in b, get !fin_op_in a, get !fin_op_in b, xa.ep_resp_out, xb.ep_resp_out, xa.ep_result, xb.ep_result) with
    | Some qa, Some qb, Some ra, Some rb, Some oa, Some ob, Some resa, Some resb
      when qa = List.nth !ireq b && qb = List.nth !ireq a && ra = resp_s ob && rb = resp_s oa ->
        incr undisturbed;
        let cfg (x : ep) = { c_protocol = x.ep_auth.a_protocol; c_me = x.ep_auth.a_my_role; c_peer = x.ep_auth.a_peer_role; c_key = x.ep_auth.a_key } in
        let m = matching (cfg xa) (cfg xb) in
        if (resa, resb) <> (m, m) then
          fails := Printf.sprintf "M C20 FAIL undisturbed-pair endpoints=%d,%d matching=%b accepted=%b,%b" a b m resa resb :: !fails
    | _ -> ());
    i := !i + 2
  done;
  List.iter print_endline (List.rev !fails);
  List.iter print_endline (List.rev !knowns);
  if !accepts > 0 then print_endline "T accept";
  if !forged then print_endline "T undeliverable-op";
  if !f19 then print_endline "T f19";
  if !undisturbed > 0 then print_endline "T undisturbed-pair";
  if !accepts > 0 || !undisturbed = 0 then print_endline "T nontrivial";
  print_endline "END"

let () =
  let header = ref "" and acc = ref [] in
  (try
     while true do
       let line = input_line stdin in
       if String.length line >= 6 && String.sub line 0 6 = "TRACE " then begin
         header := (match split line with _ :: id :: _ -> "TRACE " ^ id | _ -> line);
         acc := []
       end
       else if line = "END" then process_trace !header (List.rev !acc)
       else acc := line :: !acc
     done
   with End_of_file -> ())
