(* modelrun-alloc: replays the harness' operations (with the implementation's witnesses) on the
   extracted Coq model of the resource allocator (Alloc_model), prints the model's outputs in the
   harness' format, and evaluates the C04 / C16 monitors (extracted from HQ.Alloc.Spec) on the
   IMPLEMENTATION's outputs. *)
open Alloc_model

let rec pos_of_int i = if i = 1 then XH else if i land 1 = 0 then XO (pos_of_int (i lsr 1)) else XI (pos_of_int (i lsr 1))
let n_of_int i = if i = 0 then N0 else Npos (pos_of_int i)
let rec int_of_pos = function XH -> 1 | XO p -> 2 * int_of_pos p | XI p -> 2 * int_of_pos p + 1
let int_of_n = function N0 -> 0 | Npos p -> int_of_pos p
let ios = int_of_string
let nos s = n_of_int (ios s)
let son x = string_of_int (int_of_n x)

let split_on c s = List.filter (fun x -> x <> "") (String.split_on_char c s)
let words = split_on ' '
let join sep f l = if l = [] then "-" else String.concat sep (List.map f l)
let starts p s = String.length s >= String.length p && String.sub s 0 (String.length p) = p

let policies = [ ("compact", Compact); ("tight", Tight); ("scatter", Scatter); ("compact!", ForceCompact); ("tight!", ForceTight) ]
let policy_s p = fst (List.find (fun (_, q) -> q = p) policies)

(* ---------- parsing ---------- *)
let nums s = if s = "-" then [] else List.map nos (split_on ',' s)

let parse_c (nn, items, coup) toks =
  match toks with
  | [ "N"; n ] -> (nos n, items, coup)
  | "R" :: r :: "list" :: l :: _ -> (nn, items @ [ (nos r, KList (nums l)) ], coup)
  | "R" :: r :: "list" :: [] -> (nn, items @ [ (nos r, KList []) ], coup)
  | "R" :: r :: "range" :: s :: e :: _ -> (nn, items @ [ (nos r, KRange (nos s, nos e)) ], coup)
  | "R" :: r :: "groups" :: g :: _ -> (nn, items @ [ (nos r, KGroups (List.map nums (String.split_on_char ';' g))) ], coup)
  | "R" :: r :: "sum" :: s :: _ -> (nn, items @ [ (nos r, KSum (nos s)) ], coup)
  | [ "W"; a; b; c; d; w ] -> (nn, items, coup @ [ ((((nos a, nos b), nos c), nos d), nos w) ])
  | _ -> (nn, items, coup)

let parse_entry t =
  match String.split_on_char ':' t with
  | [ r; "all"; _ ] -> { e_res = nos r; e_req = ReqAll }
  | [ r; p; a ] -> { e_res = nos r; e_req = Req (List.assoc p policies, nos a) }
  | _ -> failwith ("bad entry " ^ t)

let entry_s e =
  match e.e_req with
  | ReqAll -> Printf.sprintf "%s:all:0" (son e.e_res)
  | Req (p, a) -> Printf.sprintf "%s:%s:%s" (son e.e_res) (policy_s p) (son a)

(* "0:1.2/3:0" -> masks in entry order *)
let parse_masks s =
  if s = "none" then None
  else
    Some
      (List.map
         (fun rm ->
           match String.split_on_char ':' rm with
           | [ _; m ] -> if m = "-" then [] else List.map nos (split_on '.' m)
           | _ -> failwith "bad mask")
         (split_on '/' s))

let parse_fw s =
  List.map (fun x -> match String.split_on_char ':' x with [ r; i ] -> (nos r, nos i) | _ -> failwith "bad fw") (split_on '/' s)

let parse_req_wit toks =
  let rec go acc = function
    | [] -> (List.rev acc, [])
    | "|" :: rest -> (List.rev acc, rest)
    | "-" :: rest -> go acc rest
    | t :: rest -> go (parse_entry t :: acc) rest
  in
  let es, wt = go [] toks in
  let w =
    List.fold_left
      (fun w t ->
        if starts "m=" t then { w with w_mask = parse_masks (String.sub t 2 (String.length t - 2)) }
        else if starts "a=" t then { w with w_adm = parse_masks (String.sub t 2 (String.length t - 2)) }
        else if starts "y=" t then { w with w_yard = parse_masks (String.sub t 2 (String.length t - 2)) }
        else if starts "f=" t then { w with w_frac = parse_fw (String.sub t 2 (String.length t - 2)) }
        else w)
      { w_mask = None; w_adm = None; w_yard = None; w_frac = [] }
      wt
  in
  (es, w)

(* ---------- printing ---------- *)
let fr_s fr =
  let l = List.sort compare (List.map (fun (k, v) -> (int_of_n k, int_of_n v)) fr) in
  join "," (fun (k, v) -> Printf.sprintf "%d:%d" k v) l

let group_s g = Printf.sprintf "%s|%s" (join "," son (List.rev g.g_idx)) (fr_s g.g_fr)

let print_snapshot pools free =
  List.iteri
    (fun rid p ->
      match p with
      | PEmpty -> Printf.printf "= P %d E\n" rid
      | PSum (full, fr) -> Printf.printf "= P %d S %s %s\n" rid (son full) (son fr)
      | PIndices (full, g) -> Printf.printf "= P %d I %s %s\n" rid (son full) (group_s g)
      | PGroups (full, gs) -> Printf.printf "= P %d G %s %s\n" rid (son full) (String.concat " / " (List.map group_s gs)))
    pools;
  List.iteri
    (fun rid st ->
      if st = [] then Printf.printf "= F %d -\n" rid
      else Printf.printf "= F %d %s\n" rid (String.concat " / " (List.map (fun g -> Printf.sprintf "%s|%s" (son g.c_units) (fr_s g.c_fr)) st)))
    free

let grant_s al =
  join ";"
    (fun ra ->
      Printf.sprintf "%s:%s:%s" (son ra.ra_res) (son ra.ra_amount)
        (join "," (fun ix -> Printf.sprintf "%s.%s.%s" (son ix.ai_index) (son ix.ai_group) (son ix.ai_frac)) ra.ra_indices))
    al

let labels_s items al =
  join ";"
    (fun ra ->
      Printf.sprintf "%s:%s" (son ra.ra_res)
        (join "," (fun ix -> match label_of items ra.ra_res ix.ai_index with true, l -> "L" ^ son l | false, i -> son i) ra.ra_indices))
    al

(* ---------- parsing the implementation's outputs ---------- *)
let parse_group s =
  match String.split_on_char '|' s with
  | [ st; fr ] ->
      let idx = List.rev (nums st) in
      let fr = if fr = "-" then [] else List.map (fun kv -> match String.split_on_char ':' kv with [ k; v ] -> (nos k, nos v) | _ -> failwith "bad fr") (split_on ',' fr) in
      (idx, fr)
  | _ -> failwith ("bad group " ^ s)

let split_groups toks =
  (* tokens "a|b" "/" "c|d" *)
  List.filter (fun t -> t <> "/") toks

let parse_pool toks =
  match toks with
  | _ :: "E" :: _ -> PEmpty
  | _ :: "S" :: full :: fr :: _ -> PSum (nos full, nos fr)
  | _ :: "I" :: full :: g :: _ -> let i, f = parse_group g in PIndices (nos full, { g_idx = i; g_fr = f })
  | _ :: "G" :: full :: gs -> PGroups (nos full, List.map (fun g -> let i, f = parse_group g in { g_idx = i; g_fr = f }) (split_groups gs))
  | _ -> failwith "bad pool line"

let parse_cstate toks =
  match toks with
  | _ :: "-" :: _ -> []
  | _ :: gs -> List.map (fun g -> let _, f = parse_group ("-|" ^ List.nth (String.split_on_char '|' g) 1) in { c_units = nos (List.hd (String.split_on_char '|' g)); c_fr = f }) (split_groups gs)
  | _ -> failwith "bad F line"

let parse_grant s =
  if s = "-" then []
  else
    List.map
      (fun r ->
        match String.split_on_char ':' r with
        | [ rid; am; ixs ] ->
            {
              ra_res = nos rid;
              ra_amount = nos am;
              ra_indices =
                (if ixs = "-" then []
                 else
                   List.map
                     (fun x -> match String.split_on_char '.' x with [ i; g; f ] -> { ai_index = nos i; ai_group = nos g; ai_frac = nos f } | _ -> failwith "bad ix")
                     (split_on ',' ixs));
            }
        | _ -> failwith ("bad grant " ^ r))
      (split_on ';' s)

type impl_out = { grant : allocation option; none : bool; panic : bool; vpanic : bool; enabled : bool option; ok : bool; released : bool; pools : pool list; free : cstate list; has_snap : bool }

let parse_impl lines =
  List.fold_left
    (fun o l ->
      match words l with
      | "GRANT" :: g :: _ -> { o with grant = Some (parse_grant g) }
      | [ "GRANT" ] -> { o with grant = Some [] }
      | "NONE" :: _ -> { o with none = true }
      | "PANIC" :: _ -> { o with panic = true }
      | "VALIDATE-PANIC" :: _ -> { o with vpanic = true }
      | "OK" :: _ -> { o with ok = true }
      | "RELEASED" :: _ -> { o with released = true }
      | "ENABLED" :: b :: _ -> { o with enabled = Some (b = "1") }
      | "P" :: rest -> { o with pools = o.pools @ [ parse_pool rest ]; has_snap = true }
      | "F" :: rest -> { o with free = o.free @ [ parse_cstate rest ] }
      | _ -> o)
    { grant = None; none = false; panic = false; vpanic = false; enabled = None; ok = false; released = false; pools = []; free = []; has_snap = false }
    lines

(* ---------- one trace ---------- *)
let rec remove_nth l n = match (l, n) with [], _ -> [] | _ :: t, 0 -> t | x :: t, n -> x :: remove_nth t (n - 1)

let process_trace header lines =
  print_endline header;
  let nn, items, coup = List.fold_left (fun acc l -> if starts "C " l then parse_c acc (words (String.sub l 2 (String.length l - 2))) else acc) (N0, [], []) lines in
  let d = { d_nnames = nn; d_items = items; d_coupling = coup } in
  (* group O lines with the implementation's = lines *)
  let ops =
    let rec go acc cur = function
      | [] -> List.rev (match cur with Some (o, ls) -> (o, List.rev ls) :: acc | None -> acc)
      | l :: rest ->
          if starts "O " l then go (match cur with Some (o, ls) -> (o, List.rev ls) :: acc | None -> acc) (Some (String.sub l 2 (String.length l - 2), [])) rest
          else if starts "= " l then go acc (match cur with Some (o, ls) -> Some (o, String.sub l 2 (String.length l - 2) :: ls) | None -> None) rest
          else go acc cur rest
    in
    go [] None lines
  in
  let model : sys option ref = ref None in
  let model_dead = ref false in
  let model_panic_now = ref false in
  let tags = Hashtbl.create 16 in
  let tag t = Hashtbl.replace tags t () in
  let fails = ref [] in
  let fail prop cls detail = fails := Printf.sprintf "M %s FAIL %s %s" prop cls detail :: !fails in
  (* implementation shadow *)
  let pools0 : pool list ref = ref [] in
  let ipools = ref [] and ifree = ref [] in
  let ilive : allocation list ref = ref [] in
  let last_enabled : (string * bool) option ref = ref None in
  let n_grant = ref 0 and n_rel = ref 0 in
  let weights = ref [] in
  List.iter
    (fun (o, impl_lines) ->
      Printf.printf "O %s\n" o;
      model_panic_now := false;
      let impl = parse_impl impl_lines in
      let toks = words o in
      (* ----- model ----- *)
      (match toks with
      | "INIT" :: _ -> (
          match init d with
          | Ok s ->
              model := Some s;
              weights := s.s_alloc.a_weights;
              print_endline "= OK";
              print_snapshot s.s_alloc.a_pools s.s_alloc.a_free
          | Panic site ->
              model_dead := true;
              model_panic_now := true;
              tag ("panic-site-" ^ son site);
              print_endline "= PANIC"
          | Disabled ->
              model_dead := true;
              print_endline "= UNMODELLED-DESCRIPTOR")
      | _ -> (
          match !model with
          | None -> print_endline "= MODEL-DEAD"
          | Some s -> (
              if !model_dead then print_endline "= MODEL-DEAD"
              else
                let mop =
                  match toks with
                  | "ALLOC" :: rest -> let es, w = parse_req_wit rest in Some (OAlloc (es, w))
                  | "ENABLED" :: rest -> let es, w = parse_req_wit rest in Some (OEnabled (es, w))
                  | "REL" :: k :: _ -> Some (ORelease (nos k))
                  | _ -> None
                in
                match mop with
                | None -> print_endline "= BAD-OP"
                | Some mop -> (
                    match step s mop with
                    | Ok (s', out) -> (
                        model := Some s';
                        match out with
                        | OutGrant al ->
                            Printf.printf "= GRANT %s\n" (grant_s al);
                            Printf.printf "= LABELS %s\n" (labels_s items al);
                            print_snapshot s'.s_alloc.a_pools s'.s_alloc.a_free
                        | OutNone ->
                            print_endline "= NONE";
                            print_snapshot s'.s_alloc.a_pools s'.s_alloc.a_free
                        | OutReleased ->
                            print_endline "= RELEASED";
                            print_snapshot s'.s_alloc.a_pools s'.s_alloc.a_free
                        | OutEnabled b -> Printf.printf "= ENABLED %d\n" (if b then 1 else 0))
                    | Panic site ->
                        model_dead := true;
                        model_panic_now := true;
                        tag ("panic-site-" ^ son site);
                        print_endline "= PANIC"
                    | Disabled -> print_endline "= WITNESS-REJECTED"))));
      (* a panic of the implementation (incl. its debug validate()) that the model does not predict *)
      if impl.vpanic then fail "C04" "validate-panic" (Printf.sprintf "the allocator's own consistency check validate() failed after '%s'" o);
      if impl.panic && not !model_panic_now then
        fail "C04" "unexpected-panic" (Printf.sprintf "the implementation panicked at '%s' (allocator code or its validate()), the model does not" o);
      (* ----- monitors on the implementation's outputs ----- *)
      (try
         match toks with
         | "INIT" :: _ ->
             if impl.ok then begin
               pools0 := impl.pools;
               ipools := impl.pools;
               ifree := impl.free;
               if not (mirror_ok impl.pools impl.free) then fail "C04" "concise-mirror" "at init"
             end
             else if impl.panic then tag "init-panic"
         | "ALLOC" :: rest ->
             let es, w = parse_req_wit rest in
             let rq_s = String.concat " " (List.map entry_s es) in
             let before = !ipools and before_free = !ifree in
             let coupled = coupled_entries before es in
             let forced = List.exists (fun e -> is_forced e.e_req) coupled in
             let wapply = weights_apply before !weights es in
             if coupled <> [] then tag "coupled";
             if forced then tag "forced";
             if wapply then tag "weights";
             if List.exists (fun e -> e.e_req = ReqAll) es then tag "all";
             (* the solver's answer: optimal? (C16 limits: checked per answer) *)
             (match w.w_mask with
             | Some masks when coupled <> [] ->
                 (* the claim solve carries tie-breaking terms (-units/32, fraction bonus) that are smaller than HiGHS'
                    relative MIP gap once coupling weights are in play: an answer that is optimal for the number of
                    groups and the coupling weights but not for the tie-break is tagged, not a failure *)
                 if not (answer_optimal true before_free before !weights es masks) then begin
                   if answer_optimal false before_free before !weights es masks then tag "tie-break-suboptimal"
                   else fail "C16" "solver-suboptimal" ("claim solve, request " ^ rq_s)
                 end
             | _ -> ());
             (match w.w_adm with
             | Some masks when coupled <> [] ->
                 if not (answer_optimal false before_free before !weights es masks) then fail "C16" "solver-suboptimal" ("admission solve, request " ^ rq_s)
             | _ -> ());
             (match w.w_yard with
             | Some masks when coupled <> [] ->
                 if not (answer_optimal false (List.map concise_state !pools0) !pools0 !weights es masks) then fail "C16" "solver-suboptimal" ("yardstick solve, request " ^ rq_s)
             | _ -> ());
             (match (impl.grant, impl.none) with
             | Some al, _ ->
                 incr n_grant;
                 tag "grant";
                 if List.exists (fun ra -> List.exists (fun ix -> ix.ai_frac <> N0) ra.ra_indices) al then tag "frac";
                 if List.exists (fun ra -> int_of_n (groups_used ra) > 1) al then tag "multi-group";
                 let after = impl.pools in
                 let live' = !ilive @ [ al ] in
                 if not (exact_amount_ok !pools0 es al && exact_amount_set_ok !pools0 es al) then fail "C04" "exact-amount" ("request " ^ rq_s ^ " grant " ^ grant_s al);
                 if not (all_entries_free before !pools0 es) then fail "C04" "all-not-free" ("request " ^ rq_s);
                 if not (transfer_ok !pools0 before after al) then fail "C04" "told-not-held" ("request " ^ rq_s ^ " grant " ^ grant_s al);
                 if not (exclusive_ok !pools0 live') then fail "C04" "exclusive" ("after grant " ^ grant_s al);
                 if not (sum_bound_ok !pools0 live') then fail "C04" "sum-bound" ("after grant " ^ grant_s al);
                 if not (conserved_ok !pools0 after live') then fail "C04" "conservation" ("after grant " ^ grant_s al);
                 if not (mirror_ok after impl.free) then fail "C04" "concise-mirror" ("after grant " ^ grant_s al);
                 if not (request_fits before es) then fail "C16" "grant-without-room" ("request " ^ rq_s);
                 List.iter2
                   (fun e ra ->
                     if (not wapply) && not (group_count_ok !pools0 before e ra) then
                       fail "C16" "group-count" (Printf.sprintf "entry %s grant %s uses %s groups" (entry_s e) (grant_s [ ra ]) (son (groups_used ra)));
                     if not (scatter_ok before e ra) then fail "C16" "scatter-shape" (Printf.sprintf "entry %s grant %s" (entry_s e) (grant_s [ ra ]));
                     if not (compact_even_ok before e ra) then fail "C16" "compact-shape" (Printf.sprintf "entry %s grant %s" (entry_s e) (grant_s [ ra ]));
                     if not (min_fraction_ok before e ra) then fail "C16" "min-fraction" (Printf.sprintf "entry %s grant %s" (entry_s e) (grant_s [ ra ]));
                     if not (tight_ok before e ra) then fail "C16" "tight-shape" (Printf.sprintf "entry %s grant %s" (entry_s e) (grant_s [ ra ])))
                   (if List.length es = List.length al then es else [])
                   (if List.length es = List.length al then al else []);
                 (match !last_enabled with
                 | Some (r, b) when r = rq_s && not b -> fail "C16" "admission-disagrees" ("is_enabled=false but granted: " ^ rq_s)
                 | _ -> ());
                 ilive := live';
                 ipools := after;
                 ifree := impl.free
             | None, true ->
                 tag "reject";
                 if forced then tag "forced-reject";
                 if impl.pools <> before || impl.free <> before_free then fail "C04" "reject-changed-state" ("request " ^ rq_s);
                 if (not forced) && request_fits before es then fail "C16" "spurious-refusal" ("request " ^ rq_s);
                 if forced && request_fits before es && not wapply then begin
                   (* refused although the minimum group count of the empty worker is achievable now *)
                   let at_min =
                     List.for_all
                       (fun e ->
                         match (e.e_req, List.nth_opt before (int_of_n e.e_res), List.nth_opt !pools0 (int_of_n e.e_res)) with
                         | Req (_, a), Some pb, Some p0 ->
                             let u, f = split a in
                             min_groups (pool_per_group pb) u f = min_groups (pool_per_group p0) u f
                         | _ -> true)
                       coupled
                   in
                   if at_min then begin tag "strict-refused-at-minimum"; fail "C16" "strict-refused-at-minimum" ("request " ^ rq_s) end
                 end;
                 (match !last_enabled with
                 | Some (r, b) when r = rq_s && b -> fail "C16" "admission-disagrees" ("is_enabled=true but refused: " ^ rq_s)
                 | _ -> ());
                 ipools := impl.pools;
                 ifree := impl.free
             | None, false -> if impl.panic then tag "impl-panic");
             last_enabled := None
         | "ENABLED" :: rest ->
             let es, _ = parse_req_wit rest in
             tag "enabled";
             (match impl.enabled with Some b -> last_enabled := Some (String.concat " " (List.map entry_s es), b) | None -> ())
         | "REL" :: k :: _ ->
             last_enabled := None;
             if impl.released then begin
               incr n_rel;
               let k = ios k in
               let al = List.nth !ilive k in
               let before = !ipools in
               let live' = remove_nth !ilive k in
               if not (transfer_ok !pools0 impl.pools before al) then fail "C04" "release-not-returned" ("release of " ^ grant_s al);
               if not (conserved_ok !pools0 impl.pools live') then fail "C04" "conservation" ("after release of " ^ grant_s al);
               if not (mirror_ok impl.pools impl.free) then fail "C04" "concise-mirror" ("after release of " ^ grant_s al);
               if live' = [] then begin
                 tag "all-released";
                 if not (pools_equiv impl.pools !pools0) then fail "C04" "release-not-restored" "free state after releasing everything differs from the initial one"
               end;
               ilive := live';
               ipools := impl.pools;
               ifree := impl.free
             end
             else if impl.panic then tag "impl-panic"
         | _ -> ()
       with e -> fail "C04" "monitor-exception" (Printexc.to_string e)))
    ops;
  List.iter print_endline (List.rev !fails);
  if (!n_grant >= 2 && !n_rel >= 1) || Hashtbl.mem tags "frac" || Hashtbl.mem tags "coupled" then tag "nontrivial";
  Hashtbl.iter (fun t () -> Printf.printf "T %s\n" t) tags;
  print_endline "END"

let () =
  let cur = ref None in
  (try
     while true do
       let line = input_line stdin in
       if starts "TRACE " line then begin
         let id = List.nth (words line) 1 in
         cur := Some ("TRACE " ^ id, [])
       end
       else if line = "END" then begin
         (match !cur with Some (h, ls) -> process_trace h (List.rev ls) | None -> ());
         cur := None
       end
       else match !cur with Some (h, ls) -> cur := Some (h, line :: ls) | None -> ()
     done
   with End_of_file -> ());
  flush stdout
