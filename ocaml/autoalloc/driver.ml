(* modelrun-autoalloc: replays the harness' operations (with their witnesses) on the extracted Coq
   model (Autoalloc_model), prints the model's outputs + snapshot in the harness' format, and
   evaluates the C17 / C18 monitors (extracted from HQ.Autoalloc.Spec) on the IMPLEMENTATION's
   outputs and snapshots. *)
open Autoalloc_model

let rec pos_of_int i = if i = 1 then XH else if i land 1 = 0 then XO (pos_of_int (i lsr 1)) else XI (pos_of_int (i lsr 1))
let n_of_int i = if i <= 0 then N0 else Npos (pos_of_int i)
let rec int_of_pos = function XH -> 1 | XO p -> 2 * int_of_pos p | XI p -> 2 * int_of_pos p + 1
let int_of_n = function N0 -> 0 | Npos p -> int_of_pos p
let noi s = n_of_int (int_of_string s)
let son n = string_of_int (int_of_n n)

let split_on c s = List.filter (fun x -> x <> "") (String.split_on_char c s)
let words s = split_on ' ' s
let starts_with p s = String.length s >= String.length p && String.sub s 0 (String.length p) = p
let drop n s = String.sub s n (String.length s - n)
let join sep l = if l = [] then "-" else String.concat sep l

(* key=value token lookup *)
let kv toks key =
  let p = key ^ "=" in
  match List.find_opt (starts_with p) toks with Some t -> drop (String.length p) t | None -> "-"

let parse_sres s = match s with "f" -> SubFail | "d" -> SubDirFail | _ -> SubOk (noi (drop 1 s))
let parse_script s = if s = "-" then [] else List.map parse_sres (split_on ',' s)
let parse_x = function "Q" -> XQueued | "R" -> XRunning | "F" -> XFinished | "X" -> XFailed | "E" -> XError | _ -> XMissing
let ids_of s = if s = "-" then [] else List.map noi (split_on ',' s)

let parse_op line : op =
  let t = words line in
  match t with
  | "ADDQ" :: b :: m :: mw :: lim :: _ ->
      let maxw = if mw = "-" then None else Some (noi mw) in
      let lim =
        if lim = "def" then None
        else match String.split_on_char ':' lim with
          | [ d; sf; af ] -> Some ((List.map noi (split_on ',' d), noi sf), noi af)
          | _ -> failwith "bad limiter"
      in
      OAddQueue (noi b, noi m, maxw, lim)
  | "TICK" :: _k :: _ ->
      let order = ids_of (kv t "ord") in
      let resps =
        let r = kv t "resp" in
        if r = "-" then []
        else List.map (fun e -> match String.split_on_char ':' e with
            | [ _q; a; b; c ] -> ((noi a, noi b), noi c)
            | _ -> failwith "bad resp") (split_on ';' r)
      in
      let scripts =
        let s = kv t "scr" in
        if s = "-" then []
        else List.map (fun e ->
            match String.index_opt e ':' with
            | Some i -> (noi (String.sub e 0 i), parse_script (let r = drop (i + 1) e in if r = "" then "-" else r))
            | None -> failwith "bad script") (split_on ';' s)
      in
      OTick (order, resps, scripts)
  | "TRY" :: q :: sn :: mn :: mnw :: _ -> OTry (noi q, ((noi sn, noi mn), noi mnw), parse_script (kv t "scr"))
  | "REFRESH" :: _ ->
      let order = ids_of (kv t "ord") in
      let st = kv t "st" in
      let wits =
        if st = "-" then []
        else List.map (fun e ->
            let i = String.index e ':' in
            let q = noi (String.sub e 0 i) in
            let r = drop (i + 1) e in
            let err, r = if starts_with "!" r then (true, drop 1 r) else (false, r) in
            let sts = List.map (fun x ->
                let j = String.index x '=' in
                (noi (String.sub x 0 j), parse_x (drop (j + 1) x))) (split_on ',' r) in
            (q, { sw_err = err; sw_sts = sts })) (split_on ';' st)
      in
      ORefresh (order, wits)
  | [ "CONN"; w; a ] -> OConnect (noi w, noi a)
  | [ "LOST"; w; a; c ] -> OLost (noi w, noi a, c = "1")
  | [ "JOB" ] -> OJob
  | [ "PAUSE"; q ] -> OPause (noi q)
  | [ "RESUME"; q ] -> OResume (noi q)
  | [ "RMQ"; q; f ] -> ORemove (noi q, f = "1")
  | [ "ADV"; d ] -> OAdvance (noi d)
  | _ -> failwith ("bad op " ^ line)

(* ---- printing (same format as /verif/harness/hq/autoalloc.rs) ---- *)
let sorted_ids l = List.sort compare (List.map int_of_n l)
let set_s l = join "," (List.map string_of_int (sorted_ids l))
let disc_s d =
  let l = List.sort compare (List.map (fun (w, c) -> (int_of_n w, c)) d) in
  join "," (List.map (fun (w, c) -> string_of_int w ^ if c then "!" else "") l)

let alloc_s a =
  let st = match a.a_status with
    | Queued e -> "Q" ^ son e
    | Running (e, c, d) -> Printf.sprintf "R%s[%s][%s]" (son e) (set_s c) (disc_s d)
    | Finished d -> Printf.sprintf "F[%s]" (disc_s d)
    | FinishedU (c, d, f) -> Printf.sprintf "U%d[%s][%s]" (if f then 1 else 0) (set_s c) (disc_s d)
  in
  Printf.sprintf "%s:%s:%s" (son a.a_id) (son a.a_target) st

let snapshot quantum (s : state) : string list =
  let qs = List.sort (fun (a, _) (b, _) -> compare (int_of_n a) (int_of_n b)) s.s_queues in
  let ql = List.map (fun (id, q) ->
      let allocs = List.sort (fun a b -> compare (int_of_n a.a_id) (int_of_n b.a_id)) q.q_allocs in
      let l = q.q_lim in
      let el = match l.l_last with None -> "-" | Some t -> string_of_int ((int_of_n s.s_now - int_of_n t) / quantum) in
      Printf.sprintf "SNAP q%s %s lim=%s,%s,%s,%s allocs %s" (son id) (if q.q_active then "A" else "P")
        (son l.l_level) (son l.l_sfails) (son l.l_afails) el (join " " (List.map alloc_s allocs))) qs in
  let idx = List.sort (fun (a, _) (b, _) -> compare (int_of_n a) (int_of_n b)) s.s_index in
  ql @ [ "SNAP index " ^ join "," (List.map (fun (a, q) -> son a ^ ">" ^ son q) idx) ]

let out_lines (outs : out list) : string list =
  let rets = List.filter_map (function OutRet b -> Some ("RET " ^ if b then "1" else "0") | _ -> None) outs in
  let subs = List.filter_map (function OutSubmit (q, n) -> Some (Printf.sprintf "SUBMIT %s %s" (son q) (son n)) | _ -> None) outs in
  let rems = List.sort compare (List.filter_map (function OutRemove (q, a) -> Some (int_of_n q, int_of_n a) | _ -> None) outs) in
  let rems = List.map (fun (q, a) -> Printf.sprintf "REMOVE %d %d" q a) rems in
  let evs = List.filter_map (function
      | EvQueueCreated q -> Some ("EV qcreated " ^ son q)
      | EvQueueRemoved q -> Some ("EV qremoved " ^ son q)
      | EvQueued (q, a, n) -> Some (Printf.sprintf "EV queued %s %s %s" (son q) (son a) (son n))
      | EvStarted (q, a) -> Some (Printf.sprintf "EV started %s %s" (son q) (son a))
      | EvFinished (q, a) -> Some (Printf.sprintf "EV finished %s %s" (son q) (son a))
      | _ -> None) outs in
  rets @ subs @ rems @ evs

(* ---- parsing the implementation's output ---- *)
type qparams = { p_backlog : n; p_mwpa : n; p_maxw : n option; p_delays : n list; p_maxsf : n; p_maxaf : n }

let parse_bracket s =
  (* "[1,2][3!,4]" -> ["1,2"; "3!,4"] *)
  let res = ref [] and cur = Buffer.create 16 and inb = ref false in
  String.iter (fun c ->
      if c = '[' then (inb := true; Buffer.clear cur)
      else if c = ']' then (inb := false; res := Buffer.contents cur :: !res)
      else if !inb then Buffer.add_char cur c) s;
  List.rev !res

let parse_disc s =
  if s = "-" || s = "" then []
  else List.map (fun x ->
      let n = String.length x in
      if n > 0 && x.[n - 1] = '!' then (noi (String.sub x 0 (n - 1)), true) else (noi x, false)) (split_on ',' s)

let parse_alloc s : alloc =
  match String.split_on_char ':' s with
  | [ id; tg; st ] ->
      let num_prefix s = (* leading digits after the tag letter *)
        let i = ref 1 in
        while !i < String.length s && s.[!i] >= '0' && s.[!i] <= '9' do incr i done;
        (int_of_string (String.sub s 1 (!i - 1)), drop !i s) in
      let status =
        match st.[0] with
        | 'Q' -> Queued (noi (drop 1 st))
        | 'R' -> let e, rest = num_prefix st in
            (match parse_bracket rest with [ c; d ] -> Running (n_of_int e, ids_of (if c = "" then "-" else c), parse_disc d) | _ -> failwith "bad R")
        | 'F' -> (match parse_bracket (drop 1 st) with [ d ] -> Finished (parse_disc d) | _ -> failwith "bad F")
        | 'U' -> let f, rest = num_prefix st in
            (match parse_bracket rest with [ c; d ] -> FinishedU (ids_of (if c = "" then "-" else c), parse_disc d, f = 1) | _ -> failwith "bad U")
        | _ -> failwith "bad status"
      in
      { a_id = noi id; a_target = noi tg; a_status = status }
  | _ -> failwith ("bad alloc " ^ s)

(* rebuild a model state from the implementation's SNAP lines *)
let parse_snapshot quantum (params : (int * qparams) list) (now : int) (next_qid : n) (lines : string list) : state =
  let queues = ref [] and index = ref [] in
  List.iter (fun l ->
      match words l with
      | "SNAP" :: "index" :: rest ->
          (match rest with
           | [ "-" ] | [] -> ()
           | [ r ] -> index := List.map (fun e -> match String.split_on_char '>' e with [ a; q ] -> (noi a, noi q) | _ -> failwith "bad index") (split_on ',' r)
           | _ -> ())
      | "SNAP" :: q :: act :: lim :: "allocs" :: allocs ->
          let qi = int_of_string (drop 1 q) in
          let p = try List.assoc qi params with Not_found -> failwith "unknown queue in snapshot" in
          let lv, sf, af, el = match String.split_on_char ',' (drop 4 lim) with [ a; b; c; d ] -> (a, b, c, d) | _ -> failwith "bad lim" in
          let last = if el = "-" then None else Some (n_of_int (now - int_of_string el * quantum)) in
          let allocs = match allocs with [ "-" ] -> [] | l -> List.map parse_alloc l in
          let limiter = { l_delays = p.p_delays; l_level = noi lv; l_last = last; l_afails = noi af; l_maxaf = p.p_maxaf; l_sfails = noi sf; l_maxsf = p.p_maxsf } in
          queues := !queues @ [ (n_of_int qi, { q_active = act = "A"; q_backlog = p.p_backlog; q_mwpa = p.p_mwpa; q_maxw = p.p_maxw; q_allocs = allocs; q_lim = limiter }) ]
      | _ -> ()) lines;
  { s_queues = !queues; s_index = !index; s_next_qid = next_qid; s_now = n_of_int now }

let parse_outs (lines : string list) : out list =
  List.filter_map (fun l ->
      match words l with
      | [ "RET"; b ] -> Some (OutRet (b = "1"))
      | [ "SUBMIT"; q; n ] -> Some (OutSubmit (noi q, noi n))
      | [ "REMOVE"; q; a ] -> Some (OutRemove (noi q, noi a))
      | [ "EV"; "qcreated"; q ] -> Some (EvQueueCreated (noi q))
      | [ "EV"; "qremoved"; q ] -> Some (EvQueueRemoved (noi q))
      | [ "EV"; "queued"; q; a; n ] -> Some (EvQueued (noi q, noi a, noi n))
      | [ "EV"; "started"; q; a ] -> Some (EvStarted (noi q, noi a))
      | [ "EV"; "finished"; q; a ] -> Some (EvFinished (noi q, noi a))
      | _ -> None) lines

let c17_class = function
  | 1 -> "backlog-exceeded" | 2 -> "max-workers-exceeded" | 3 -> "alloc-size" | 9 -> "limiter-index"
  | 4 -> "illegitimate-submit" | 7 -> "exhausted-not-paused" | 8 -> "resume-no-submit" | c -> "code" ^ string_of_int c
let c18_class = function
  | 11 -> "worker-accounting" | 12 -> "events" | 13 -> "no-history" | 15 -> "index"
  | 21 -> "lifecycle" | 24 -> "remove-queue" | c -> "code" ^ string_of_int c

module SS = Set.Make (String)

let process_trace header (lines : string list) =
  print_endline header;
  let quantum = ref 60 in
  let mstate = ref (init_state (n_of_int 1)) in
  let mdead = ref false in
  let istate = ref (init_state (n_of_int 1)) in
  let ghost = ref init_ghost in
  let params = ref [] in
  let now = ref 0 in
  let fails = ref [] in
  let tags = ref SS.empty in
  let tag t = tags := SS.add t !tags in
  let seen = Hashtbl.create 16 in
  let fail prop cls detail =
    let key = prop ^ cls in
    if not (Hashtbl.mem seen key) then begin
      Hashtbl.add seen key ();
      fails := Printf.sprintf "M %s FAIL %s %s" prop cls detail :: !fails
    end in
  (* group the trace into (op line, impl output lines) *)
  let groups = ref [] and cur = ref None in
  List.iter (fun line ->
      if String.length line >= 2 then
        match line.[0] with
        | 'C' -> (match words (drop 2 line) with [ "quantum"; q ] -> quantum := int_of_string q | _ -> ())
        | 'O' -> (match !cur with Some g -> groups := g :: !groups | None -> ()); cur := Some (drop 2 line, [])
        | '=' -> (match !cur with Some (o, ls) -> cur := Some (o, ls @ [ drop 2 line ]) | None -> ())
        | _ -> ()) lines;
  (match !cur with Some g -> groups := g :: !groups | None -> ());
  let step_no = ref 0 in
  List.iter (fun (opline, impl) ->
      incr step_no;
      print_endline ("O " ^ opline);
      let o = try Some (parse_op opline) with _ -> None in
      match o with
      | None -> print_endline "= BADOP"
      | Some o ->
          (* 1. the model *)
          if not !mdead then begin
            match step !mstate o with
            | Ok (s', outs) ->
                mstate := s';
                List.iter (fun l -> print_endline ("= " ^ l)) (out_lines outs @ snapshot !quantum s')
            | Disabled -> print_endline "= DISABLED"; List.iter (fun l -> print_endline ("= " ^ l)) (snapshot !quantum !mstate)
            | Panic site -> print_endline ("= PANIC " ^ son site); mdead := true
          end;
          (* 2. monitors on the implementation's outputs *)
          let panicked = List.exists (starts_with "PANIC") impl in
          if panicked then tag "panic"
          else begin
            (match o with OAdvance d -> now := !now + int_of_n d | _ -> ());
            let outs = parse_outs impl in
            (match o with
             | OAddQueue (b, m, mw, lim) ->
                 List.iter (function
                     | EvQueueCreated q ->
                         let p = match lim with
                           | None -> { p_backlog = b; p_mwpa = m; p_maxw = mw; p_delays = default_limiter.l_delays; p_maxsf = default_limiter.l_maxsf; p_maxaf = default_limiter.l_maxaf }
                           | Some ((d, sf), af) -> { p_backlog = b; p_mwpa = m; p_maxw = mw; p_delays = d; p_maxsf = sf; p_maxaf = af } in
                         params := (int_of_n q, p) :: !params
                     | _ -> ()) outs
             | _ -> ());
            let snap_lines = List.filter (starts_with "SNAP") impl in
            let next_qid = List.fold_left (fun acc (q, _) -> max acc (q + 1)) 1 !params in
            match (try Some (parse_snapshot !quantum !params !now (n_of_int next_qid) snap_lines) with _ -> None) with
            | None -> fail "C17" "snapshot-unparsable" (Printf.sprintf "step=%d" !step_no)
            | Some is' ->
                let is = !istate in
                let g = !ghost in
                List.iter (fun (c, q) -> fail "C17" (c17_class (int_of_n c)) (Printf.sprintf "step=%d queue=%s op=%s" !step_no (son q) (List.hd (words opline))))
                  (mon_step_c17 g is o is' outs);
                List.iter (fun ((c, q), a) -> fail "C18" (c18_class (int_of_n c)) (Printf.sprintf "step=%d queue=%s alloc=%s op=%s" !step_no (son q) (son a) (List.hd (words opline))))
                  (mon_step_c18 is o is' outs);
                let g' = ghost_step is o is' outs g in
                List.iter (fun (c, q) -> fail "C17" (c17_class (int_of_n c)) (Printf.sprintf "step=%d queue=%s" !step_no (son q))) (mon_c17 is');
                List.iter (fun ((c, q), a) -> fail "C18" (c18_class (int_of_n c)) (Printf.sprintf "step=%d queue=%s alloc=%s" !step_no (son q) (son a))) (mon_c18 is' g');
                (* unknown allocation: nothing changes *)
                (match o with
                 | OConnect (_, a) | OLost (_, a, _) ->
                     if alookup a is.s_index = None then begin
                       tag "unknown-alloc";
                       let before = snapshot !quantum is and after = snapshot !quantum is' in
                       if before <> after || outs <> [ OutRet true ] then
                         fail "C18" "unknown-not-noop" (Printf.sprintf "step=%d alloc=%s" !step_no (son a))
                     end
                 | _ -> ());
                (* classification *)
                if List.exists (function OutSubmit _ -> true | _ -> false) outs then tag "submit";
                if List.exists (function EvFinished _ -> true | _ -> false) outs then tag "alloc-finished";
                (match o with
                 | OTick (_, resps, _) ->
                     (* demand side (structural, on the real scheduler's answer): the fitting 1-cpu tasks bound
                        the number of 1-cpu workers asked for; tasks that fit no queue (4 cpus on 1-cpu workers,
                        min_time above the time limit) create no demand *)
                     let toks = words opline in
                     let k = (match toks with _ :: k :: _ -> int_of_string k | _ -> 0) in
                     let geti key = (let v = kv toks key in if v = "-" then 0 else int_of_string v) in
                     let u = geti "u" and t = geti "t" in
                     let total = List.fold_left (fun acc ((sn, _), _) -> acc + int_of_n sn) 0 resps in
                     let mn = List.exists (fun ((_, mn), _) -> mn <> N0) resps in
                     if u + t > 0 then tag (if k = 0 then "only-unfit-demand" else "mixed-unfit-demand");
                     if total > k || mn then
                       fail "C17" "demand-without-candidates" (Printf.sprintf "step=%d fitting_tasks=%d unfit=%d too_long=%d workers_wanted=%d" !step_no k u t total)
                 | _ -> ());
                (match o with
                 | OTick (_, resps, scripts) ->
                     let nsub = List.length (List.filter (function OutSubmit _ -> true | _ -> false) outs) in
                     let nq = List.length (List.filter (function EvQueued _ -> true | _ -> false) outs) in
                     if nsub > nq then tag "submit-failed";
                     if List.exists (fun ((sn, _), _) -> sn <> N0) resps && nsub = 0 then tag "demand-but-silent";
                     ignore scripts;
                     List.iter (fun (qi, q) -> match get_queue is' qi with
                         | Some q' -> if q.q_active && not q'.q_active then tag "auto-paused"
                         | None -> ()) is.s_queues;
                     List.iter (fun (qi, q) ->
                         if q.q_active && (match submission_status is.s_now q.q_lim with LWait -> true | _ -> false) then tag "rate-limited";
                         ignore qi) is.s_queues;
                     if g.gh_resumed <> [] && nsub > 0 then tag "submit-after-resume"
                 | OTry (_, ((_, mn), _), _) ->
                     if mn <> N0 then tag "multinode-demand";
                     let nsub = List.length (List.filter (function OutSubmit _ -> true | _ -> false) outs) in
                     let nq = List.length (List.filter (function EvQueued _ -> true | _ -> false) outs) in
                     if nsub > nq then tag "submit-failed"
                 | ORefresh (_, wits) ->
                     if List.exists (fun (_, w) -> w.sw_err) wits then tag "status-call-err";
                     if List.exists (fun (_, w) -> List.exists (fun (_, x) -> x = XError) w.sw_sts) wits then tag "status-error";
                     if List.exists (fun (_, w) -> List.exists (fun (_, x) -> x = XMissing) w.sw_sts) wits then tag "status-missing";
                     List.iter (fun (qi, w) ->
                         match get_queue is qi with
                         | Some q -> List.iter (fun (id, x) ->
                             match find_alloc id q.q_allocs with
                             | Some a -> (match a.a_status, x with
                                 | Running _, XQueued -> tag "status-contradictory"
                                 | Queued e, XError when int_of_n e >= int_of_n aA_MAX_QUEUED_STATUS_ERROR_COUNT -> tag "status-error-streak-finish"
                                 | Running (e, _, _), XError when int_of_n e >= int_of_n aA_MAX_RUNNING_STATUS_ERROR_COUNT -> tag "status-error-streak-finish"
                                 | _ -> ())
                             | None -> ()) w.sw_sts
                         | None -> ()) wits
                 | OConnect (w, a) ->
                     (match alookup a is.s_index with
                      | Some qi -> (match get_queue is qi with
                          | Some q -> (match find_alloc a q.q_allocs with
                              | Some al -> (match al.a_status with
                                  | Running (_, c, d) ->
                                      if mem w c then tag "duplicate-connect";
                                      if List.exists (fun (x, _) -> x = w) d then tag "connect-after-loss";
                                      if List.length c >= int_of_n al.a_target then tag "extra-worker"
                                  | Finished _ | FinishedU _ -> tag "connect-to-finished"
                                  | Queued _ -> (match g_find qi a g.gh_allocs with Some ga -> if mem w ga.g_lost then tag "connect-after-loss" | None -> ()))
                              | None -> ())
                          | None -> ())
                      | None -> ())
                 | OLost (w, a, _) ->
                     (match alookup a is.s_index with
                      | Some qi -> (match get_queue is qi with
                          | Some q -> (match find_alloc a q.q_allocs with
                              | Some al -> (match al.a_status with
                                  | Running (_, c, d) ->
                                      if not (mem w c) then (if List.exists (fun (x, _) -> x = w) d then tag "duplicate-loss" else tag "loss-before-connect")
                                  | Queued _ -> tag "loss-while-queued"
                                  | _ -> tag "loss-from-finished")
                              | None -> ())
                          | None -> ())
                      | None -> ())
                 | OPause _ -> tag "pause"
                 | OResume q -> (match get_queue is q with Some v -> if not v.q_active then (tag "resume"; if lim_exhausted v.q_lim then tag "resume-after-auto-pause") | None -> ())
                 | ORemove (_, _) -> (match outs with OutRet true :: _ -> tag "queue-removed" | _ -> tag "queue-remove-refused")
                 | _ -> ());
                istate := is';
                ghost := g'
          end) (List.rev !groups);
  List.iter print_endline (List.rev !fails);
  SS.iter (fun t -> print_endline ("T " ^ t)) !tags;
  let fault_tags = [ "submit-failed"; "auto-paused"; "rate-limited"; "status-call-err"; "status-error"; "status-missing"; "status-contradictory";
                     "unknown-alloc"; "duplicate-connect"; "connect-after-loss"; "extra-worker"; "loss-before-connect"; "duplicate-loss";
                     "loss-while-queued"; "loss-from-finished"; "connect-to-finished"; "resume"; "pause"; "queue-removed"; "queue-remove-refused"; "panic" ] in
  if SS.mem "submit" !tags && List.exists (fun t -> SS.mem t !tags) fault_tags then print_endline "T nontrivial";
  print_endline "END"

let () =
  let header = ref None and acc = ref [] in
  (try
     while true do
       let line = input_line stdin in
       if starts_with "TRACE " line then begin
         (match String.split_on_char ' ' line with _ :: id :: _ -> header := Some ("TRACE " ^ id) | _ -> header := Some line);
         acc := []
       end
       else if line = "END" then begin
         (match !header with Some h -> process_trace h (List.rev !acc) | None -> ());
         header := None;
         acc := []
       end
       else acc := line :: !acc
     done
   with End_of_file -> ())
